package smtp

// BOUNDED stand-in (never counted as proved) for the end-to-end side of C19's line limit, which the
// contracts decide only at the limiter (the stack above it - bufio, textproto.ReadLine - is library
// code behind a stub): a command line within the limit is served, a longer one is never handed to
// the backend, is answered 500 and ends the connection, whatever the segmentation of the stream.

import (
	"bytes"
	"fmt"
	"log"
	"strings"
	"testing"
	"time"
)

type c19be struct{ c05be; mails []string }
type c19sess struct {
	c05sess
	be *c19be
}

func (b *c19be) NewSession(*Conn) (Session, error) { return &c19sess{c05sess{&b.c05be}, b}, nil }
func (s *c19sess) Mail(from string, o *MailOptions) error {
	s.be.mails = append(s.be.mails, from)
	return nil
}

func TestBoundedC19(t *testing.T) {
	res := &boundedResult{name: "line-limit-end-to-end", bound: "MAIL FROM:<a...a@b> lines of 1990..2010, 3000 and 5000 octets (limit 2000), sent in one segment, cut at 1000 and at 1998..2002, alone and with a following NOOP in the same segment; MAIL FROM:<a@b> padded with blanks to 2002, 2500 and 5000 octets, cut after the command, at 1000 and at 1999; a 3000-octet line in the segment of a BDAT command with a chunk of 0, 10 or 1995 octets, LAST or not"}
	run := func(desc string, segs []string, lineLen int, addr string) {
		res.n++
		sc := &segConn{}
		for _, s := range segs {
			if s != "" {
				sc.segs = append(sc.segs, []byte(s))
			}
		}
		var logBuf bytes.Buffer
		be := &c19be{}
		srv := NewServer(be)
		srv.Domain = "x"
		srv.ErrorLog = log.New(&logBuf, "", 0)
		done := make(chan struct{})
		go func() { defer close(done); srv.handleConn(newConn(sc, srv)) }()
		select {
		case <-done:
		case <-time.After(3 * time.Second):
			res.fail(desc, "the connection handler did not finish within 3 s")
			return
		}
		sc.mu.Lock()
		out := sc.out.String()
		sc.mu.Unlock()
		within := lineLen <= srv.MaxLineLength
		if lineLen == srv.MaxLineLength+1 {
			return // exactly one octet over: the property does not say (its prefix without CRLF is a complete command)
		}
		if within {
			if len(be.mails) != 1 || be.mails[0] != addr {
				res.fail(desc, fmt.Sprintf("line of %d octets is within the limit but the backend got %d Mail calls; replies %.300q", lineLen, len(be.mails), out))
			}
			return
		}
		if len(be.mails) != 0 {
			res.fail(desc, fmt.Sprintf("line of %d octets exceeds the limit but the backend got Mail(%.30q...)", lineLen, be.mails[0]))
		} else if !strings.Contains(out, "500 5.4.0 Too long line") {
			res.fail(desc, fmt.Sprintf("line of %d octets exceeds the limit but is not refused as too long: %.300q", lineLen, out))
		} else if strings.Contains(out[strings.Index(out, "500 5.4.0 Too long line"):], "\r\n250 ") {
			res.fail(desc, "commands were served after the too-long line")
		}
	}
	for _, total := range []int{1990, 1998, 1999, 2000, 2001, 2002, 2010, 3000, 5000} {
		// total = octets of the line including its CRLF, which is what the limiter counts up to the LF
		fixed := len("MAIL FROM:<@b>\r\n")
		addr := strings.Repeat("a", total-fixed) + "@b"
		line := "MAIL FROM:<" + addr + ">\r\n"
		lineLen := len(line) // the LF that ends the previous line is the first octet of the run, so the whole line with its CRLF counts
		for _, tail := range []string{"", "NOOP\r\n"} {
			pre := "EHLO c\r\n"
			name := fmt.Sprintf("line of %d octets, tail %q", len(line), tail)
			run(name+", one segment", []string{pre, line + tail}, lineLen, addr)
			run(name+", whole session in one segment", []string{pre + line + tail}, lineLen, addr)
			for _, cut := range []int{1000, 1998, 1999, 2000, 2001, 2002} {
				if cut < len(line) {
					run(fmt.Sprintf("%s, cut at %d", name, cut), []string{pre, line[:cut], line[cut:] + tail}, lineLen, addr)
				}
			}
		}
	}
	// a line whose head is a complete command and whose tail is padding: nothing of it may be served
	for _, total := range []int{2002, 2500, 5000} {
		for _, pad := range []string{" ", " X"} {
			head := "MAIL FROM:<a@b>"
			line := head + strings.Repeat(pad, (total-len(head)-2)/len(pad)+1)[:total-len(head)-2] + "\r\n"
			name := fmt.Sprintf("padded line of %d octets (padding %q)", len(line), pad)
			run(name+", one segment", []string{"EHLO c\r\n", line}, len(line), "a@b")
			for _, cut := range []int{len(head), 1000, 1999} {
				run(fmt.Sprintf("%s, cut at %d", name, cut), []string{"EHLO c\r\n", line[:cut], line[cut:]}, len(line), "a@b")
			}
		}
	}
	// an over-long line in the segment of a BDAT command and its chunk (the limit is lifted for the chunk)
	for _, chunk := range []string{"", "0123456789", strings.Repeat("x", 1995)} {
		for _, lastTok := range []string{" LAST", ""} {
			long := "MAIL FROM:<" + strings.Repeat("a", 3000) + "@b>\r\n"
			pre := "EHLO c\r\nMAIL FROM:<s@t>\r\nRCPT TO:<u@v>\r\n"
			bdat := fmt.Sprintf("BDAT %d%s\r\n%s", len(chunk), lastTok, chunk)
			if lastTok == "" {
				bdat += "RSET\r\n"
			}
			name := fmt.Sprintf("over-long line behind BDAT %d%s", len(chunk), lastTok)
			res.n++
			sc := &segConn{segs: [][]byte{[]byte(pre), []byte(bdat + long)}}
			var logBuf bytes.Buffer
			be := &c19be{}
			srv := NewServer(be)
			srv.Domain = "x"
			srv.ErrorLog = log.New(&logBuf, "", 0)
			done := make(chan struct{})
			go func() { defer close(done); srv.handleConn(newConn(sc, srv)) }()
			select {
			case <-done:
			case <-time.After(3 * time.Second):
				res.fail(name, "the connection handler did not finish within 3 s")
				continue
			}
			for _, m := range be.mails {
				if len(m) > 2000 {
					res.fail(name, fmt.Sprintf("a line of %d octets read ahead with the chunk reached the backend: Mail(%.20q...)", len(long), m))
				}
			}
		}
	}
	res.print(t)
}
