package smtp

// BOUNDED stand-in (never counted as proved) for the end-to-end side of C19's line limit, which the
// contracts decide only at the limiter (the stack above it - bufio, textproto.ReadLine - is library
// code behind a stub): a command line within the limit is served, a longer one is never handed to
// the backend, is answered 500 and ends the connection, whatever the segmentation of the stream.

import (
	"bytes"
	"fmt"
	"log"
	"strings"
	"testing"
	"time"
)

type c19be struct{ c05be; mails []string }
type c19sess struct {
	c05sess
	be *c19be
}

func (b *c19be) NewSession(*Conn) (Session, error) { return &c19sess{c05sess{&b.c05be}, b}, nil }
func (s *c19sess) Mail(from string, o *MailOptions) error {
	s.be.mails = append(s.be.mails, from)
	return nil
}

func TestBoundedC19(t *testing.T) {
	res := &boundedResult{name: "line-limit-end-to-end", bound: "MAIL FROM:<a...a@b> lines of 1990..2010, 3000 and 5000 octets (limit 2000), sent in one segment, cut at 1000, at 1999/2000/2001 and octet by octet around the limit, alone and with a following NOOP in the same segment"}
	run := func(desc string, segs []string, lineLen int, addr string) {
		res.n++
		sc := &segConn{}
		for _, s := range segs {
			if s != "" {
				sc.segs = append(sc.segs, []byte(s))
			}
		}
		var logBuf bytes.Buffer
		be := &c19be{}
		srv := NewServer(be)
		srv.Domain = "x"
		srv.ErrorLog = log.New(&logBuf, "", 0)
		done := make(chan struct{})
		go func() { defer close(done); srv.handleConn(newConn(sc, srv)) }()
		select {
		case <-done:
		case <-time.After(3 * time.Second):
			res.fail(desc, "the connection handler did not finish within 3 s")
			return
		}
		sc.mu.Lock()
		out := sc.out.String()
		sc.mu.Unlock()
		within := lineLen <= srv.MaxLineLength
		if lineLen == srv.MaxLineLength+1 {
			return // exactly one octet over: the property does not say (its prefix without CRLF is a complete command)
		}
		if within {
			if len(be.mails) != 1 || be.mails[0] != addr {
				res.fail(desc, fmt.Sprintf("line of %d octets is within the limit but the backend got %d Mail calls; replies %.300q", lineLen, len(be.mails), out))
			}
			return
		}
		if len(be.mails) != 0 {
			res.fail(desc, fmt.Sprintf("line of %d octets exceeds the limit but the backend got Mail(%.30q...)", lineLen, be.mails[0]))
		} else if !strings.Contains(out, "500 5.4.0 Too long line") {
			res.fail(desc, fmt.Sprintf("line of %d octets exceeds the limit but is not refused as too long: %.300q", lineLen, out))
		} else if strings.Contains(out[strings.Index(out, "500 5.4.0 Too long line"):], "\r\n250 ") {
			res.fail(desc, "commands were served after the too-long line")
		}
	}
	for _, total := range []int{1990, 1998, 1999, 2000, 2001, 2002, 2010, 3000, 5000} {
		// total = octets of the line including its CRLF, which is what the limiter counts up to the LF
		fixed := len("MAIL FROM:<@b>\r\n")
		addr := strings.Repeat("a", total-fixed) + "@b"
		line := "MAIL FROM:<" + addr + ">\r\n"
		lineLen := len(line) // the LF that ends the previous line is the first octet of the run, so the whole line with its CRLF counts
		for _, tail := range []string{"", "NOOP\r\n"} {
			pre := "EHLO c\r\n"
			name := fmt.Sprintf("line of %d octets, tail %q", len(line), tail)
			run(name+", one segment", []string{pre, line + tail}, lineLen, addr)
			run(name+", whole session in one segment", []string{pre + line + tail}, lineLen, addr)
			for _, cut := range []int{1000, 1998, 1999, 2000, 2001, 2002} {
				if cut < len(line) {
					run(fmt.Sprintf("%s, cut at %d", name, cut), []string{pre, line[:cut], line[cut:] + tail}, lineLen, addr)
				}
			}
		}
	}
	res.print(t)
}
