package smtp

// BOUNDED stand-in (never counted as proved) for the clause of C11/C14 that the deductive verifier
// cannot reach: the regexp-driven decoders agree with reference decoders written here from the
// grammars of RFC 3461 (xtext) and RFC 6533 (utf-8-addr-xtext), on every string of a bounded set.
// Judged: a well-formed value decodes to the reference value; a value with a malformed escape is
// refused. Octets that the grammar does not allow unescaped but that cannot reach the decoders
// through parseArgs (space, '=') are not judged.

import (
	"fmt"
	"strconv"
	"strings"
	"testing"
	"unicode/utf8"
)

func isUpperHex(c byte) bool { return (c >= '0' && c <= '9') || (c >= 'A' && c <= 'F') }

// refXtext: RFC 3461 section 4: xtext = *( xchar / hexchar ), hexchar = "+" 2(%x30-39 / %x41-46).
// Returns (value, wellFormed, malformedEscape).
func refXtext(s string) (string, bool, bool) {
	var out []byte
	strict := true
	for i := 0; i < len(s); {
		c := s[i]
		if c == '+' {
			if i+2 < len(s) && isUpperHex(s[i+1]) && isUpperHex(s[i+2]) {
				v, _ := strconv.ParseUint(s[i+1:i+3], 16, 8)
				if v >= 0x80 {
					// every use of xtext in go-smtp (ENVID, ORCPT rfc822, AUTH) is 7-bit after decoding and the
					// property speaks of "xtext on all of 7-bit ASCII": an escaped 8-bit octet is not judged
					strict = false
				}
				out = append(out, byte(v))
				i += 3
				continue
			}
			return "", false, true
		}
		if c < '!' || c > '~' || c == '=' {
			strict = false // not an xchar: not judged
		}
		out = append(out, c)
		i++
	}
	return string(out), strict, false
}

// refHexpointOK: RFC 6533 section 3: which code points may be written as \x{HEXPOINT}, per digit count.
func refHexpointOK(h string) bool {
	for i := 0; i < len(h); i++ {
		if !isUpperHex(h[i]) {
			return false
		}
	}
	v, err := strconv.ParseUint(h, 16, 32)
	if err != nil {
		return false
	}
	switch len(h) {
	case 2:
		// ( ( "0"/"1" ) %x31-39 ) / "10" / "20" / "2B" / "3D" / "7F" / "5C" / ( HEXDIG8 HEXDIG )
		if (h[0] == '0' || h[0] == '1') && h[1] >= '1' && h[1] <= '9' {
			return true
		}
		switch h {
		case "10", "20", "2B", "3D", "7F", "5C":
			return true
		}
		return v >= 0x80
	case 3:
		return h[0] != '0'
	case 4:
		return h[0] != '0' && !(v >= 0xD800 && v <= 0xDFFF)
	case 5:
		return h[0] != '0'
	case 6:
		return h[0] == '1' && h[1] == '0'
	}
	return false
}

// refUTF8AddrXtext: QCHAR / EmbeddedUnicodeChar, plus UTF-8 non-ASCII (unitext form).
func refUTF8AddrXtext(s string) (string, bool, bool) {
	var out []byte
	strict := true
	for i := 0; i < len(s); {
		c := s[i]
		if c == '\\' {
			if strings.HasPrefix(s[i:], "\\x{") {
				end := strings.IndexByte(s[i:], '}')
				if end > 3 {
					h := s[i+3 : i+end]
					if refHexpointOK(h) {
						v, _ := strconv.ParseUint(h, 16, 32)
						var buf [4]byte
						n := utf8.EncodeRune(buf[:], rune(v))
						out = append(out, buf[:n]...)
						i += end + 1
						continue
					}
				}
			}
			return "", false, true
		}
		if c >= 0x80 {
			r, n := utf8.DecodeRuneInString(s[i:])
			if r == utf8.RuneError && n == 1 {
				strict = false
			}
			out = append(out, s[i:i+n]...)
			i += n
			continue
		}
		if c < '!' || c > '~' || c == '+' || c == '=' {
			strict = false // not a QCHAR: not judged
		}
		out = append(out, c)
		i++
	}
	return string(out), strict, false
}

func TestBoundedC11(t *testing.T) {
	judge := func(res *boundedResult, s string, ref func(string) (string, bool, bool), dec func(string) (string, error)) {
		res.n++
		want, wellFormed, malformed := ref(s)
		got, err := dec(s)
		switch {
		case malformed && err == nil:
			res.fail(s, fmt.Sprintf("malformed escape, but the decoder accepts it as %q", got))
		case wellFormed && err != nil:
			res.fail(s, fmt.Sprintf("well-formed (value %q), but the decoder refuses it: %v", want, err))
		case wellFormed && got != want:
			res.fail(s, fmt.Sprintf("decodes to %q, the grammar says %q", got, want))
		}
	}
	x := &boundedResult{name: "xtext-decoder-vs-rfc3461", bound: "all strings of length <= 5 over {+,=,a,A,F,G,f,0,9,7,space,~}"}
	shortStrings([]string{"+", "=", "a", "A", "F", "G", "f", "0", "9", "7", " ", "~"}, 5, func(s string) { judge(x, s, refXtext, decodeXtext) })
	x.print(t)
	u := &boundedResult{name: "utf8-addr-xtext-decoder-vs-rfc6533", bound: "all concatenations of <= 5 tokens from {\\x{,},\\,x,{,0,1,4,5,8,A,C,D,F,a,é,+}"}
	shortStrings([]string{"\\x{", "}", "\\", "x", "{", "0", "1", "4", "5", "8", "A", "C", "D", "F", "a", "é", "+"}, 5, func(s string) { judge(u, s, refUTF8AddrXtext, decodeUTF8AddrXtext) })
	u.print(t)
	// every hexpoint form around the boundaries of the grammar (RFC 6533 section 3: 2- to 6-digit forms, no
	// leading zero beyond two digits, no surrogates, nothing above 10FFFF), alone and between two letters
	h := &boundedResult{name: "utf8-addr-xtext-hexpoints-vs-rfc6533", bound: "\\x{H} alone and between two letters for every H of 1..3 hex digits, and for every value within 2 of 0, 9, 10, 19, 20, 2B, 3D, 5C, 7F, 80, FF, 100, FFF, 1000, D7FF, D800, DFFF, E000, FFFF, 10000, FFFFF, 100000, 10FFFF, 110000, 1FFFFF in every zero-padded width up to 6"}
	seen := map[string]bool{}
	try := func(hx string) {
		if seen[hx] {
			return
		}
		seen[hx] = true
		judge(h, "\\x{"+hx+"}", refUTF8AddrXtext, decodeUTF8AddrXtext)
		judge(h, "a\\x{"+hx+"}b", refUTF8AddrXtext, decodeUTF8AddrXtext)
	}
	for v := 0; v < 0x1000; v++ {
		for w := 1; w <= 3; w++ {
			if s := fmt.Sprintf("%0*X", w, v); len(s) == w {
				try(s)
			}
		}
	}
	for _, b := range []int{0, 0x9, 0x10, 0x19, 0x20, 0x2B, 0x3D, 0x5C, 0x7F, 0x80, 0xFF, 0x100, 0xFFF, 0x1000, 0xD7FF, 0xD800, 0xDFFF, 0xE000, 0xFFFF, 0x10000, 0xFFFFF, 0x100000, 0x10FFFF, 0x110000, 0x1FFFFF} {
		for v := b - 2; v <= b+2; v++ {
			if v < 0 {
				continue
			}
			for w := 1; w <= 6; w++ {
				if s := fmt.Sprintf("%0*X", w, v); len(s) == w {
					try(s)
				}
			}
		}
	}
	h.print(t)
}
