package smtp

// BOUNDED stand-in (never counted as proved) for the clause of C05 that the contracts cannot state:
// chunk octets are opaque WHATEVER the segmentation of the stream, including when bufio reads them
// ahead together with the BDAT command line (the line limiter sits below bufio; the deductive model
// abstracts ReadLine as one stub). The real server stack (newConn + handleConn: line limiter, bufio,
// textproto, command loop, BDAT handler, delivery goroutine) runs on a scripted in-memory connection
// whose every Read returns exactly one scripted segment.

import (
	"bytes"
	"fmt"
	"io"
	"log"
	"net"
	"os"
	"strings"
	"sync"
	"testing"
	"time"
)

type segConn struct {
	segs [][]byte
	out  bytes.Buffer
	mu   sync.Mutex
}

func (c *segConn) Read(p []byte) (int, error) {
	if len(c.segs) == 0 {
		return 0, io.EOF
	}
	n := copy(p, c.segs[0])
	if n < len(c.segs[0]) {
		c.segs[0] = c.segs[0][n:]
	} else {
		c.segs = c.segs[1:]
	}
	return n, nil
}
func (c *segConn) Write(p []byte) (int, error) {
	c.mu.Lock()
	defer c.mu.Unlock()
	return c.out.Write(p)
}
func (c *segConn) Close() error                       { return nil }
func (c *segConn) LocalAddr() net.Addr                { return c13addr{} }
func (c *segConn) RemoteAddr() net.Addr               { return c13addr{} }
func (c *segConn) SetDeadline(time.Time) error        { return nil }
func (c *segConn) SetReadDeadline(time.Time) error    { return nil }
func (c *segConn) SetWriteDeadline(time.Time) error   { return nil }

type c05be struct{ msgs []string }
type c05sess struct{ be *c05be }

func (b *c05be) NewSession(*Conn) (Session, error)          { return &c05sess{b}, nil }
func (s *c05sess) Reset()                                  {}
func (s *c05sess) Logout() error                           { return nil }
func (s *c05sess) Mail(string, *MailOptions) error         { return nil }
func (s *c05sess) Rcpt(string, *RcptOptions) error         { return nil }
func (s *c05sess) Data(r io.Reader) error {
	b, err := io.ReadAll(r)
	if err != nil {
		return err
	}
	s.be.msgs = append(s.be.msgs, string(b))
	return nil
}

func TestBoundedC05(t *testing.T) {
	thorough := os.Getenv("VERIF_TIER") == "thorough"
	classes := map[string]*boundedResult{}
	bound := "payloads: 0/1/7 octets, 1990..2010 and 3000 and 5000 octets without LF, 3000 octets of 8-bit values, texts with LF every 10 octets, embedded <CRLF>.<CRLF> and command look-alikes; in one or two chunks; stream cut into segments at the command boundaries, not at all, and at every position around the BDAT line (thorough: every position of the short payloads); followed by NOOP and QUIT"
	total := 0
	disagree := func(class, in, detail string) {
		r := classes[class]
		if r == nil {
			r = &boundedResult{name: "bdat-transparent-under-segmentation[" + class + "]", bound: bound}
			classes[class] = r
		}
		r.n++
		if r.failDetail == "" || len(in) < len(r.failInput) {
			r.failInput, r.failDetail = in, detail
		}
	}
	rep := func(c byte, n int) string { return strings.Repeat(string(c), n) }
	var payloads []string
	payloads = append(payloads, "", "x", "abc\r\nd", ".\r\n", "a\r\n.\r\nQUIT\r\n", "MAIL FROM:<x@y>\r\n")
	for _, n := range []int{1990, 1999, 2000, 2001, 2010, 3000, 5000} {
		payloads = append(payloads, rep('x', n))
	}
	bin := make([]byte, 3000)
	for i := range bin {
		bin[i] = byte(i*7 + 1)
		if bin[i] == '\n' {
			bin[i] = 0
		}
	}
	payloads = append(payloads, string(bin))
	var lines strings.Builder
	for i := 0; i < 300; i++ {
		lines.WriteString("123456789\n")
	}
	payloads = append(payloads, lines.String())

	runCase := func(desc string, segs []string, wantMsg string) {
		total++
		sc := &segConn{}
		var logBuf bytes.Buffer
		for _, s := range segs {
			if s != "" {
				sc.segs = append(sc.segs, []byte(s))
			}
		}
		be := &c05be{}
		srv := NewServer(be)
		srv.Domain = "x"
		srv.ErrorLog = log.New(&logBuf, "", 0)
		done := make(chan struct{})
		go func() { defer close(done); srv.handleConn(newConn(sc, srv)) }()
		select {
		case <-done:
		case <-time.After(3 * time.Second):
			disagree("hang", desc, "the connection handler did not finish within 3 s")
			return
		}
		sc.mu.Lock()
		out := sc.out.String()
		sc.mu.Unlock()
		time.Sleep(0)
		if strings.Contains(logBuf.String(), "panic serving") {
			disagree("panic-in-the-server", desc, strings.SplitN(logBuf.String(), "\n", 2)[0])
		}
		var finals []string
		for _, l := range strings.Split(strings.TrimSuffix(out, "\r\n"), "\r\n") {
			if len(l) >= 4 && l[3] == ' ' {
				finals = append(finals, l[:3])
			}
		}
		// greeting, EHLO, MAIL, RCPT, BDAT (one per chunk), NOOP, QUIT
		if len(be.msgs) != 1 || be.msgs[0] != wantMsg {
			got := "nothing"
			if len(be.msgs) > 0 {
				got = fmt.Sprintf("%d octets %.40q...", len(be.msgs[0]), be.msgs[0])
			}
			class := "payload-altered-or-lost"
			if strings.Contains(out, "Too long line") {
				class = "line-limit-applied-to-chunk-octets"
			}
			disagree(class, desc, fmt.Sprintf("backend got %s, want %d octets; replies %v", got, len(wantMsg), finals))
			return
		}
		if n := len(finals); n < 3 || finals[n-1] != "221" || finals[n-2] != "250" {
			disagree("commands-after-the-chunk-out-of-step", desc, fmt.Sprintf("replies %v", finals))
		}
	}
	pre := []string{"EHLO c\r\n", "MAIL FROM:<a@b>\r\n", "RCPT TO:<c@d>\r\n"}
	post := "NOOP\r\nQUIT\r\n"
	for pi, p := range payloads {
		name := fmt.Sprintf("payload#%d(%d octets, %.12q)", pi, len(p), p)
		cmd := fmt.Sprintf("BDAT %d LAST\r\n", len(p))
		// 1. every command and the payload in segments of their own
		runCase(name+" separate segments", append(append([]string{}, pre...), cmd, p, post), p)
		// 2. BDAT line and payload (and what follows) in one segment
		runCase(name+" BDAT line and payload in one segment", append(append([]string{}, pre...), cmd+p+post), p)
		// 3. everything in one segment
		runCase(name+" whole session in one segment", []string{strings.Join(pre, "") + cmd + p + post}, p)
		// 4. cut at every position around the BDAT line
		whole := cmd + p + post
		limit := len(cmd) + 3
		if thorough && len(p) <= 32 {
			limit = len(whole) - 1
		}
		for cut := 1; cut <= limit && cut < len(whole); cut++ {
			runCase(fmt.Sprintf("%s cut %d octets into the BDAT line+payload", name, cut), append(append([]string{}, pre...), whole[:cut], whole[cut:]), p)
		}
		// 5. two chunks
		if len(p) >= 2 {
			h := len(p) / 2
			two := fmt.Sprintf("BDAT %d\r\n%sBDAT %d LAST\r\n%s", h, p[:h], len(p)-h, p[h:])
			runCase(name+" two chunks in one segment", append(append([]string{}, pre...), two+post), p)
			runCase(name+" two chunks, segment per piece", append(append([]string{}, pre...), fmt.Sprintf("BDAT %d\r\n", h), p[:h], fmt.Sprintf("BDAT %d LAST\r\n", len(p)-h), p[h:], post), p)
		}
	}
	for _, k := range sortedKeys13(classes) {
		classes[k].print(t)
	}
	all := &boundedResult{name: "bdat-transparent-under-segmentation", bound: bound, n: total}
	all.print(t)
}

func sortedKeys13(m map[string]*boundedResult) []string {
	var ks []string
	for k := range m {
		ks = append(ks, k)
	}
	for i := range ks {
		for j := i + 1; j < len(ks); j++ {
			if ks[j] < ks[i] {
				ks[i], ks[j] = ks[j], ks[i]
			}
		}
	}
	return ks
}
