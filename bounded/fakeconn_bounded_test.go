package smtp

// A connection object without a network behind it, for the bounded stand-ins that drive real handlers.

import (
	"bytes"
	"net"
	"time"
)

type boundedRWC struct{ bytes.Buffer }

func (*boundedRWC) Close() error { return nil }

type boundedConn struct{ net.Conn }

func (boundedConn) SetWriteDeadline(time.Time) error { return nil }
