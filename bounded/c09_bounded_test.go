package smtp

// BOUNDED stand-in (never counted as proved) for the clauses of C09 that the deductive check leaves to
// base64 and to the two ends being composed: the real Client.Auth talks to the real server (newConn +
// handleConn, insecure authentication allowed) over net.Pipe; a scripted client mechanism and a scripted
// server mechanism record what they are handed. Judged, from the property text: the server mechanism
// receives exactly the octets the client mechanism produced, the client mechanism exactly the server's
// challenges (empty and binary values included), the result reported by Auth is the server's final
// reply, a client mechanism error cancels the exchange and leaves the connection usable, and after
// every exchange the connection is in command mode (a NOOP is answered 250).

import (
	"bytes"
	"errors"
	"fmt"
	"io"
	"log"
	"net"
	"testing"
	"time"

	"github.com/emersion/go-sasl"
)

type c09ClientMech struct {
	ir        []byte // nil: no initial response
	responses [][]byte
	failAt    int // Next call (0-based) that returns an error, -1 never
	got       [][]byte
}

func (m *c09ClientMech) Start() (string, []byte, error) { return "X-SCRIPT", m.ir, nil }
func (m *c09ClientMech) Next(challenge []byte) ([]byte, error) {
	k := len(m.got)
	m.got = append(m.got, append([]byte{}, challenge...))
	if k == m.failAt {
		return nil, errors.New("scripted mechanism failure")
	}
	if k < len(m.responses) {
		return m.responses[k], nil
	}
	return []byte{}, nil
}

type c09ServerMech struct {
	challenges [][]byte
	accept     bool
	got        [][]byte
}

func (m *c09ServerMech) Next(response []byte) ([]byte, bool, error) {
	k := len(m.got)
	if response == nil {
		m.got = append(m.got, nil)
	} else {
		m.got = append(m.got, append([]byte{}, response...))
	}
	if k < len(m.challenges) {
		return m.challenges[k], false, nil
	}
	if m.accept {
		return nil, true, nil
	}
	return nil, false, &SMTPError{Code: 535, EnhancedCode: EnhancedCode{5, 7, 8}, Message: "scripted refusal"}
}

type c09Session struct {
	mech *c09ServerMech
}

func (s *c09Session) Reset()                                 {}
func (s *c09Session) Logout() error                          { return nil }
func (s *c09Session) Mail(from string, o *MailOptions) error { return nil }
func (s *c09Session) Rcpt(to string, o *RcptOptions) error   { return nil }
func (s *c09Session) Data(r io.Reader) error                 { return nil }
func (s *c09Session) AuthMechanisms() []string               { return []string{"X-SCRIPT"} }
func (s *c09Session) Auth(mech string) (sasl.Server, error)  { return s.mech, nil }

type c09Backend struct{ sess *c09Session }

func (b *c09Backend) NewSession(c *Conn) (Session, error) { return b.sess, nil }

var _ sasl.Client = (*c09ClientMech)(nil)

func TestBoundedC09(t *testing.T) {
	values := [][]byte{{}, []byte("a"), {0, 0xff, '='}, []byte("*"), []byte("\r\n.\r\n")}
	res := &boundedResult{name: "auth-exchange-client-against-server", bound: "initial response absent or one of 5 values (empty, a, NUL FF =, *, CR LF . CR LF); 0..2 challenge rounds with challenges and responses from the same 5 values (all combinations for one round, the diagonal and two mixed ones for two); server accepts / refuses; client mechanism fails at no / the first / the second step"}
	type script struct {
		ir         []byte
		challenges [][]byte
		responses  [][]byte
		accept     bool
		failAt     int
	}
	var scripts []script
	irs := append([][]byte{nil}, values...)
	for _, ir := range irs {
		for _, acc := range []bool{true, false} {
			scripts = append(scripts, script{ir: ir, accept: acc, failAt: -1})
			for _, ch := range values {
				for _, rs := range values {
					for _, fa := range []int{-1, 0} {
						scripts = append(scripts, script{ir: ir, challenges: [][]byte{ch}, responses: [][]byte{rs}, accept: acc, failAt: fa})
					}
				}
			}
			for i, ch := range values {
				rs := values[(i+1)%len(values)]
				for _, fa := range []int{-1, 1} {
					scripts = append(scripts, script{ir: ir, challenges: [][]byte{ch, rs}, responses: [][]byte{rs, ch}, accept: acc, failAt: fa})
					scripts = append(scripts, script{ir: ir, challenges: [][]byte{ch, ch}, responses: [][]byte{ch, ch}, accept: acc, failAt: fa})
				}
			}
		}
	}
	for _, sc := range scripts {
		res.n++
		in := fmt.Sprintf("ir=%q challenges=%q responses=%q accept=%v failAt=%d", sc.ir, sc.challenges, sc.responses, sc.accept, sc.failAt)
		sm := &c09ServerMech{challenges: sc.challenges, accept: sc.accept}
		cm := &c09ClientMech{ir: sc.ir, responses: sc.responses, failAt: sc.failAt}
		srv := NewServer(&c09Backend{sess: &c09Session{mech: sm}})
		srv.Domain = "x"
		srv.AllowInsecureAuth = true
		srv.ErrorLog = log.New(io.Discard, "", 0)
		cEnd, sEnd := net.Pipe()
		done := make(chan struct{})
		go func() {
			srv.handleConn(newConn(sEnd, srv))
			close(done)
		}()
		fail := func(d string) { res.fail(in, d) }
		func() {
			defer func() {
				cEnd.Close()
				select {
				case <-done:
				case <-time.After(2 * time.Second):
					fail("the server goroutine did not end after the client hung up")
				}
			}()
			cEnd.SetDeadline(time.Now().Add(2 * time.Second))
			cl := NewClient(cEnd)
			if err := cl.Hello("c"); err != nil {
				fail("greeting/EHLO failed: " + err.Error())
				return
			}
			err := cl.Auth(cm)
			// what each side's mechanism must have seen
			var wantServer [][]byte // octets handed to the server mechanism, in order
			var wantClient [][]byte // challenges handed to the client mechanism
			if sc.ir != nil {
				wantServer = append(wantServer, sc.ir)
			} else {
				wantServer = append(wantServer, nil)
			}
			cancelled := false
			for k, ch := range sc.challenges {
				wantClient = append(wantClient, ch)
				if k == sc.failAt {
					cancelled = true
					break
				}
				r := []byte{}
				if k < len(sc.responses) {
					r = sc.responses[k]
				}
				wantServer = append(wantServer, r)
			}
			if len(sm.got) != len(wantServer) {
				fail(fmt.Sprintf("the server mechanism was handed %q, the client mechanism produced %q", sm.got, wantServer))
				return
			}
			for k := range wantServer {
				if !bytes.Equal(sm.got[k], wantServer[k]) || (k == 0 && (sm.got[k] == nil) != (wantServer[k] == nil)) {
					fail(fmt.Sprintf("the server mechanism was handed %q, the client mechanism produced %q", sm.got, wantServer))
					return
				}
			}
			if len(cm.got) != len(wantClient) {
				fail(fmt.Sprintf("the client mechanism was handed %q, the server sent the challenges %q", cm.got, wantClient))
				return
			}
			for k := range wantClient {
				if !bytes.Equal(cm.got[k], wantClient[k]) {
					fail(fmt.Sprintf("the client mechanism was handed %q, the server sent the challenges %q", cm.got, wantClient))
					return
				}
			}
			switch {
			case cancelled:
				if err == nil {
					fail("the client mechanism failed but Auth reports success")
					return
				}
			case sc.accept:
				if err != nil {
					fail("the server accepted (235) but Auth reports " + err.Error())
					return
				}
			default:
				se, ok := err.(*SMTPError)
				if !ok || se.Code != 535 || se.Message != "scripted refusal" {
					fail(fmt.Sprintf("the server refused with 535 scripted refusal but Auth reports %v", err))
					return
				}
			}
			// command mode, connection usable
			if e := cl.Noop(); e != nil {
				fail("after the exchange NOOP fails: " + e.Error())
				return
			}
			// at most one success per session
			if sc.accept && !cancelled {
				sm2 := &c09ClientMech{ir: []byte("a"), failAt: -1}
				before := len(sm.got)
				e := cl.Auth(sm2)
				if se, ok := e.(*SMTPError); !ok || se.Code != 503 || len(sm.got) != before {
					fail(fmt.Sprintf("a second AUTH after success: %v, mechanism consulted again: %v", e, len(sm.got) != before))
				}
			}
		}()
	}
	res.print(t)
}
