package smtp

// BOUNDED stand-in (never counted as proved) for the part of C13 that sequential contracts do not
// decide: attribution of statuses and absence of deadlock under the orders and timings of SetStatus
// calls. The real handleDataLMTP / handleBdat run on a connection object without network, against a
// scripted backend, under a watchdog. The deductive check covers the sequential kernel (one slot per
// recipient, slot i is the channel of recipient i, i-th reply built from the value received from
// slot i, fillRemaining fills to capacity); goroutine scheduling itself stays nondeterministic here.

import (
	"bufio"
	"fmt"
	"io"
	"log"
	"net"
	"net/textproto"
	"os"
	"strings"
	"testing"
	"time"
)

type c13addr struct{}

func (c13addr) Network() string { return "test" }
func (c13addr) String() string  { return "test" }

type c13conn struct{ boundedConn }

func (c13conn) RemoteAddr() net.Addr { return c13addr{} }
func (c13conn) Close() error         { return nil }

type c13call struct {
	rcpt string
	code int // 0 = success
}

type c13script struct {
	before, after []c13call
	ret           int // 0 = nil, otherwise the code of the returned error
	panics        bool
	perRcpt       bool
}

type c13plain struct{ sc *c13script }

func (s *c13plain) Reset()                                 {}
func (s *c13plain) Logout() error                          { return nil }
func (s *c13plain) Mail(string, *MailOptions) error        { return nil }
func (s *c13plain) Rcpt(string, *RcptOptions) error        { return nil }
func (s *c13plain) Data(r io.Reader) error {
	io.Copy(io.Discard, r)
	if s.sc.panics {
		panic("scripted panic")
	}
	return c13err(s.sc.ret)
}

type c13lmtp struct{ c13plain }

func c13err(code int) error {
	if code == 0 {
		return nil
	}
	return &SMTPError{Code: code, EnhancedCode: EnhancedCode{code / 100, 0, 0}, Message: fmt.Sprintf("status %d", code)}
}

func (s *c13lmtp) LMTPData(r io.Reader, st StatusCollector) error {
	for _, c := range s.sc.before {
		st.SetStatus(c.rcpt, c13err(c.code))
	}
	io.Copy(io.Discard, r)
	for _, c := range s.sc.after {
		st.SetStatus(c.rcpt, c13err(c.code))
	}
	if s.sc.panics {
		panic("scripted panic")
	}
	return c13err(s.sc.ret)
}

func TestBoundedC13(t *testing.T) {
	maxRcpt := 4
	if os.Getenv("VERIF_TIER") == "thorough" {
		maxRcpt = 5
	}
	res := &boundedResult{name: "lmtp-status-attribution-and-no-deadlock", bound: fmt.Sprintf("recipient lists of 1..%d entries over {a,b}; every sub-multiset and order of SetStatus calls (distinct codes, success included), all before / all after / split around the reading of the message; return value nil or error; backend panic; DATA and BDAT LAST; per-recipient and plain backend; 2 s watchdog", maxRcpt)}

	var lists [][]string
	var rec func(cur []string)
	rec = func(cur []string) {
		if len(cur) > 0 {
			lists = append(lists, append([]string{}, cur...))
		}
		if len(cur) == maxRcpt {
			return
		}
		rec(append(cur, "a"))
		rec(append(cur, "b"))
	}
	rec(nil)

	runOne := func(rcpts []string, sc *c13script, bdat bool) ([]string, bool, bool) {
		body := "hello\r\n"
		var in string
		if bdat {
			in = body
		} else {
			in = body + ".\r\n"
		}
		rwc := &boundedRWC{}
		rwc.WriteString(in)
		out := &strings.Builder{}
		tc := &textproto.Conn{Reader: textproto.Reader{R: bufio.NewReader(rwc)}, Writer: textproto.Writer{W: bufio.NewWriter(out)}}
		var sess Session
		if sc.perRcpt {
			sess = &c13lmtp{c13plain{sc}}
		} else {
			sess = &c13plain{sc}
		}
		srv := &Server{LMTP: true, ErrorLog: log.New(io.Discard, "", 0)}
		c := &Conn{text: tc, server: srv, conn: c13conn{}, session: sess, helo: "x", fromReceived: true,
			recipients: append([]string{}, rcpts...), lineLimitReader: &lineLimitReader{}}
		done := make(chan struct{})
		go func() {
			defer close(done)
			if bdat {
				c.handleBdat(fmt.Sprintf("%d LAST", len(body)))
			} else {
				c.handleDataLMTP()
			}
		}()
		select {
		case <-done:
		case <-time.After(2 * time.Second):
			return nil, true, false
		}
		tc.Writer.W.Flush()
		lines := strings.Split(strings.TrimSuffix(out.String(), "\r\n"), "\r\n")
		return lines, false, c.closed
	}

	hangs := 0
	judge := func(rcpts []string, sc *c13script, bdat bool) {
		if hangs >= 3 {
			return // every hang costs the watchdog's 2 s: three witnesses are enough
		}
		res.n++
		desc := fmt.Sprintf("rcpts=%v before=%v after=%v ret=%d panic=%v perRcpt=%v bdat=%v", rcpts, sc.before, sc.after, sc.ret, sc.panics, sc.perRcpt, bdat)
		lines, hung, _ := runOne(rcpts, sc, bdat)
		if hung {
			hangs++
			res.fail(desc, "the handler did not finish within 2 s (deadlock)")
			return
		}
		if len(lines) != len(rcpts) {
			res.fail(desc, fmt.Sprintf("%d replies for %d recipients: %q", len(lines), len(rcpts), lines))
			return
		}
		// expected status per occurrence: the k-th status set for an address belongs to its k-th occurrence
		set := map[string][]int{}
		isSet := map[string][]bool{}
		for _, c := range append(append([]c13call{}, sc.before...), sc.after...) {
			set[c.rcpt] = append(set[c.rcpt], c.code)
			isSet[c.rcpt] = append(isSet[c.rcpt], true)
		}
		seen := map[string]int{}
		for i, r := range rcpts {
			k := seen[r]
			seen[r]++
			line := lines[i]
			if !strings.Contains(line, "<"+r+">") {
				res.fail(desc, fmt.Sprintf("reply %d does not name recipient %s: %q", i+1, r, line))
				return
			}
			var code int
			fmt.Sscanf(line, "%d", &code)
			want := -1
			switch {
			case sc.perRcpt && k < len(set[r]):
				want = set[r][k]
			case sc.panics:
				want = -421 // any refusal
			default:
				want = sc.ret
			}
			ok := false
			switch {
			case want == 0:
				ok = code == 250
			case want == -421:
				ok = code >= 400
			default:
				ok = code == want
			}
			if !ok {
				res.fail(desc, fmt.Sprintf("reply %d (%s, occurrence %d) is %q, want status %d (0 = success)", i+1, r, k+1, line, want))
				return
			}
		}
	}

	for _, rcpts := range lists {
		// plain backend
		for _, ret := range []int{0, 554} {
			for _, pn := range []bool{false, true} {
				for _, bdat := range []bool{false, true} {
					if pn && !bdat {
						// a plain backend runs inside the command loop for DATA: its panic is caught by the
						// loop's own recover (one 421, connection closed) - judged by C08/C04, not here
						continue
					}
					judge(rcpts, &c13script{ret: ret, panics: pn}, bdat)
				}
			}
		}
		// per-recipient backend: all sequences of calls that never exceed the occurrences of an address
		occ := map[string]int{}
		for _, r := range rcpts {
			occ[r]++
		}
		var seqs [][]c13call
		var gen func(cur []c13call, used map[string]int)
		gen = func(cur []c13call, used map[string]int) {
			seqs = append(seqs, append([]c13call{}, cur...))
			for _, a := range []string{"a", "b"} {
				if used[a] < occ[a] {
					used[a]++
					for _, code := range []int{0, 550 + len(cur)} {
						gen(append(cur, c13call{a, code}), used)
					}
					used[a]--
				}
			}
		}
		gen(nil, map[string]int{})
		for _, seq := range seqs {
			splits := []int{0, len(seq)}
			if len(seq) >= 2 {
				splits = append(splits, len(seq)/2)
			}
			for _, sp := range splits {
				for _, ret := range []int{0, 554} {
					for _, pn := range []bool{false, true} {
						for _, bdat := range []bool{false, true} {
							judge(rcpts, &c13script{before: seq[:sp], after: seq[sp:], ret: ret, panics: pn, perRcpt: true}, bdat)
						}
					}
				}
			}
		}
	}
	res.print(t)
}
