package smtp

// BOUNDED stand-in (never counted as proved) for the grammar half of C11: the real RCPT/MAIL handlers
// are run on every short string over an alphabet of syntactically significant characters, and the
// outcome (backend called with which mailbox / refused) is compared with an independent reference
// for the Path grammar of RFC 5321 section 4.1.2, written here from the RFC. Inputs are classified
// valid / definitely invalid / quoted / unspecified; the last class is not judged (paths without angle
// brackets, quoted pairs, address literals: forms on which implementations legitimately differ or whose
// value representation the property does not fix). A plain quoted-string local part may be refused or
// accepted, but when it is accepted its content (with or without the quotes) and domain must arrive.
// Every way of disagreeing is a class of its own: one BOUNDED line per class, so that a recorded
// finding names a class and a new kind of disagreement is still reported.

import (
	"fmt"
	"io"
	"net/textproto"
	"os"
	"sort"
	"strings"
	"testing"
)

type pathSession struct {
	rcpt  []string
	mail  []string
	calls int
}

func (s *pathSession) Reset()        {}
func (s *pathSession) Logout() error { return nil }
func (s *pathSession) Mail(from string, o *MailOptions) error {
	s.calls++
	s.mail = append(s.mail, from)
	return nil
}
func (s *pathSession) Rcpt(to string, o *RcptOptions) error {
	s.calls++
	s.rcpt = append(s.rcpt, to)
	return nil
}
func (s *pathSession) Data(r io.Reader) error { return nil }

func isAlnum(c byte) bool { return c >= '0' && c <= '9' || c >= 'a' && c <= 'z' || c >= 'A' && c <= 'Z' }

// atext of RFC 5322 (the part of it that the alphabet can produce, plus the rest for completeness)
func isAtext(c byte) bool {
	return isAlnum(c) || strings.IndexByte("!#$%&'*+-/=?^_`{|}~", c) >= 0 || c >= 0x80
}

// refDomain: Domain = sub-domain *("." sub-domain); sub-domain = Let-dig [Ldh-str]. Returns "" or the reason.
func refDomain(d string) string {
	if d == "" {
		return "domain-empty"
	}
	for _, label := range strings.Split(d, ".") {
		if label == "" {
			return "domain-empty-label"
		}
		for i := 0; i < len(label); i++ {
			c := label[i]
			if c == '@' {
				return "domain-has-at-sign"
			}
			if !(isAlnum(c) || c == '-' || c >= 0x80) {
				return "domain-bad-character"
			}
		}
		if label[0] == '-' || label[len(label)-1] == '-' {
			return "domain-hyphen-placement"
		}
	}
	return ""
}

// refDotString: Dot-string = Atom *("." Atom)
func refDotString(l string) string {
	if l == "" {
		return "local-part-empty"
	}
	for _, atom := range strings.Split(l, ".") {
		if atom == "" {
			return "local-part-dot-placement"
		}
		for i := 0; i < len(atom); i++ {
			if !isAtext(atom[i]) {
				return "local-part-bad-character"
			}
		}
	}
	return ""
}

// refPath classifies s as a Path: ("valid", mailbox), ("invalid", reason) or ("unspecified", "").
func refPath(s string) (string, string) {
	if strings.ContainsAny(s, "\\[]") {
		return "unspecified", "" // quoted pairs, address literals
	}
	if strings.Contains(s, "\"") {
		// Quoted-string local part without quoted pairs and blanks, <"q"@domain>: whether it is accepted and in
		// which representation it is handed over is not fixed, but if it is accepted the content must arrive.
		if strings.HasPrefix(s, "<\"") && strings.HasSuffix(s, ">") && !strings.Contains(s, " ") {
			rest := s[2 : len(s)-1]
			if i := strings.IndexByte(rest, '"'); i >= 0 && strings.HasPrefix(rest[i+1:], "@") && !strings.Contains(rest[i+1:], "\"") && !strings.ContainsAny(rest[i+2:], "<>@") && refDomain(rest[i+2:]) == "" {
				return "quoted", rest[:i] + "@" + rest[i+2:]
			}
		}
		return "unspecified", ""
	}
	if !strings.HasPrefix(s, "<") {
		return "unspecified", "" // no angle brackets: a common leniency, not judged
	}
	if strings.ContainsAny(s, " ") {
		return "unspecified", "" // a space starts the parameters: judged by the parameter clauses
	}
	if !strings.HasSuffix(s, ">") {
		return "invalid", "missing-closing-bracket"
	}
	body := s[1 : len(s)-1]
	if strings.HasPrefix(body, "@") {
		i := strings.IndexByte(body, ':')
		if i < 0 {
			return "invalid", "source-route-without-colon"
		}
		for _, ad := range strings.Split(body[:i], ",") {
			if !strings.HasPrefix(ad, "@") || refDomain(ad[1:]) != "" {
				return "invalid", "source-route-malformed"
			}
		}
		body = body[i+1:]
	}
	if strings.ContainsAny(body, "<>") {
		return "invalid", "bracket-inside-path"
	}
	at := strings.IndexByte(body, '@')
	if at < 0 {
		return "invalid", "no-at-sign"
	}
	if r := refDotString(body[:at]); r != "" {
		return "invalid", r
	}
	if r := refDomain(body[at+1:]); r != "" {
		return "invalid", r
	}
	return "valid", body
}

func TestBoundedC11Path(t *testing.T) {
	maxLen := 7
	if os.Getenv("VERIF_TIER") == "thorough" {
		maxLen = 8
	}
	alphabet := []string{"<", ">", "@", ".", "a", "b", "1", "-", ":", ",", " ", "\"", "["}
	bound := fmt.Sprintf("RCPT TO:<s> and MAIL FROM:<s> for all strings s of length <= %d over {<,>,@,.,a,b,1,-,:,comma,space,\",[}, plus every valid one followed by a known parameter", maxLen)

	sess := &pathSession{}
	rwc := &boundedRWC{}
	c := &Conn{text: textproto.NewConn(rwc), server: &Server{EnableSMTPUTF8: true}, conn: boundedConn{}, session: sess, helo: "x"}
	classes := map[string]*boundedResult{}
	total := 0
	disagree := func(class, in, detail string) {
		r := classes[class]
		if r == nil {
			r = &boundedResult{name: "path-parser-vs-rfc5321[" + class + "]", bound: bound}
			classes[class] = r
		}
		r.n++
		// keep the plainest witness: shortest, then fewest characters other than letters and digits
		odd := func(s string) int {
			k := 0
			for i := 0; i < len(s); i++ {
				if !isAlnum(s[i]) {
					k++
				}
			}
			return k
		}
		if r.failDetail == "" || len(in) < len(r.failInput) || (len(in) == len(r.failInput) && odd(in) < odd(r.failInput)) {
			r.failInput, r.failDetail = in, detail
		}
	}
	run := func(cmd, s, suffix string) (called bool, got string, reply string) {
		sess.rcpt, sess.mail, sess.calls = sess.rcpt[:0], sess.mail[:0], 0
		rwc.Reset()
		c.recipients, c.bdatPipe = nil, nil
		if cmd == "RCPT" {
			c.fromReceived = true
			c.handleRcpt("TO:" + s + suffix)
			if len(sess.rcpt) == 1 {
				got = sess.rcpt[0]
			}
		} else {
			c.fromReceived = false
			c.handleMail("FROM:" + s + suffix)
			if len(sess.mail) == 1 {
				got = sess.mail[0]
			}
		}
		return sess.calls > 0, got, strings.TrimSpace(rwc.String())
	}
	judge := func(cmd, s string) {
		total++
		kind, info := refPath(s)
		if cmd == "MAIL" && s == "<>" {
			kind, info = "valid", ""
		}
		if kind == "unspecified" {
			return
		}
		called, got, reply := run(cmd, s, "")
		switch kind {
		case "valid":
			if !called {
				disagree(cmd+":refuses-valid-path", s, "well-formed path refused: "+reply)
			} else if got != info {
				disagree(cmd+":wrong-mailbox", s, fmt.Sprintf("backend received %q, the line says %q", got, info))
			} else if !strings.HasPrefix(reply, "250 ") {
				disagree(cmd+":accepted-but-not-250", s, reply)
			}
			// the same path followed by a parameter
			total++
			suffix := " NOTIFY=NEVER"
			if cmd == "MAIL" {
				suffix = " SMTPUTF8"
			}
			c.server.EnableDSN = true
			called, got, reply = run(cmd, s, suffix)
			if !called || got != info {
				disagree(cmd+":valid-path-with-parameter", s+suffix, fmt.Sprintf("called=%v mailbox=%q reply=%q", called, got, reply))
			}
		case "quoted":
			if called && got != info && got != "\""+info[:strings.LastIndex(info, "@")]+"\""+info[strings.LastIndex(info, "@"):] {
				disagree(cmd+":quoted-local-part-content-changed", s, fmt.Sprintf("backend received %q for a quoted local part whose content and domain are %q", got, info))
			}
		case "invalid":
			if called {
				disagree(cmd+":accepts:"+info, s, fmt.Sprintf("malformed path (%s) handed to the backend as %q", info, got))
			} else if len(reply) < 3 || reply[0] != '5' {
				disagree(cmd+":refusal-is-not-5xx", s, reply)
			}
		}
	}
	shortStrings(alphabet, maxLen, func(s string) {
		judge("RCPT", s)
		judge("MAIL", s)
	})
	var names []string
	for k := range classes {
		names = append(names, k)
	}
	sort.Strings(names)
	for _, k := range names {
		classes[k].print(t)
	}
	all := &boundedResult{name: "path-parser-vs-rfc5321", bound: bound, n: total}
	all.print(t)
}
