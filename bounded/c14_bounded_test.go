package smtp

// BOUNDED stand-in (never counted as proved) for the clauses of C14 that the deductive
// verifier cannot reach because the server's decoders are driven by the regexp engine:
// decoder(encoder(x)) == x for the three encoder/decoder pairs, over the bound stated in each
// line printed below. Injected with `go test -overlay`; nothing is written to the repository.
// Each check prints one line
//   BOUNDED name=<n> evaluations=<N> bound="<text>" status=ok|FAIL [input=<quoted> detail=<text>]

import (
	"fmt"
	"testing"
	"time"
)

func TestBoundedC14(t *testing.T) {
	asciiAlphabet := []string{"+", "=", " ", "\\", "{", "}", "x", "A", "F", "0", "9", "a", "~", "<", "@"}
	utfAlphabet := append(append([]string{}, asciiAlphabet...), "é", "€", "\U0001F600")

	check := func(res *boundedResult, s string, enc func(string) string, dec func(string) (string, error)) {
		res.n++
		e := enc(s)
		d, err := dec(e)
		if err != nil {
			res.fail(s, fmt.Sprintf("encoded as %q, the decoder refuses it: %v", e, err))
		} else if d != s {
			res.fail(s, fmt.Sprintf("encoded as %q, decoded as %q", e, d))
		}
		for i := 0; i < len(e); i++ {
			if e[i] <= 0x20 || e[i] == 0x7f || e[i] == '=' {
				if e[i] < 0x80 {
					res.fail(s, fmt.Sprintf("encoded form %q is not a single esmtp-value token", e))
				}
			}
		}
	}

	// 1. xtext on all of printable 7-bit ASCII: every octet alone, in context, and all short strings
	x := &boundedResult{name: "xtext-roundtrip", bound: "every printable 7-bit octet alone and between two letters; all strings of length <= 4 over 15 encoding-significant ASCII characters"}
	for c := rune(0x20); c <= 0x7e; c++ {
		check(x, string(c), encodeXtext, decodeXtext)
		check(x, "a"+string(c)+"b", encodeXtext, decodeXtext)
	}
	shortStrings(asciiAlphabet, 4, func(s string) { check(x, s, encodeXtext, decodeXtext) })
	x.print(t)

	// 2. utf-8-addr-xtext and 3. utf-8-addr-unitext: every Unicode scalar value of the domain, short strings
	for _, p := range []struct {
		name string
		enc  func(string) string
	}{{"utf8-addr-xtext-roundtrip", encodeUTF8AddrXtext}, {"utf8-addr-unitext-roundtrip", encodeUTF8AddrUnitext}} {
		u := &boundedResult{name: p.name, bound: "every Unicode scalar value that is printable ASCII or non-ASCII, alone and between two letters; all strings of length <= 3 over 18 characters (15 ASCII + 2/3/4-byte UTF-8)"}
		for r := rune(0x20); r <= 0x10ffff; r++ {
			if !inDomain(r) {
				continue
			}
			check(u, string(r), p.enc, decodeUTF8AddrXtext)
			check(u, "a"+string(r)+"b", p.enc, decodeUTF8AddrXtext)
		}
		shortStrings(utfAlphabet, 3, func(s string) { check(u, s, p.enc, decodeUTF8AddrXtext) })
		u.print(t)
	}

	// 4. RRVS: a time rendered by the client is parsed back by the server's procedure to the same second
	rr := &boundedResult{name: "rrvs-roundtrip-to-the-second", bound: "every second of 2 days around a leap day, every 9973rd second of 1970-2100, in UTC and at +05:30 / -08:00"}
	zones := []*time.Location{time.UTC, time.FixedZone("", 5*3600+1800), time.FixedZone("", -8*3600)}
	checkTime := func(ts time.Time) {
		for _, z := range zones {
			rr.n++
			in := ts.In(z)
			s := in.Format(time.RFC3339)
			back, err := time.Parse(time.RFC3339, s)
			if err != nil {
				rr.fail(s, "the server's time.Parse(RFC3339) refuses it: "+err.Error())
			} else if !back.Equal(in.Truncate(time.Second)) {
				rr.fail(s, fmt.Sprintf("parsed back as %v", back))
			}
		}
	}
	start := time.Date(2024, 2, 28, 12, 0, 0, 0, time.UTC)
	for i := 0; i < 2*86400; i++ {
		checkTime(start.Add(time.Duration(i) * time.Second))
	}
	for ts := time.Date(1970, 1, 1, 0, 0, 0, 0, time.UTC); ts.Year() < 2100; ts = ts.Add(9973 * time.Second) {
		checkTime(ts.Add(123456789 * time.Nanosecond))
	}
	rr.print(t)
}
