package smtp

// BOUNDED stand-in (never counted as proved) for the parameter half of C11's quantifier: the real
// MAIL/RCPT handlers are run on every parameter list made of a few tokens, and the outcome is
// compared with a reference written here from RFC 5321 4.1.2 (esmtp-param), RFC 1870 (SIZE),
// RFC 6152/3030 (BODY), RFC 3461 (RET, ENVID, NOTIFY, ORCPT), RFC 4954 (AUTH), RFC 6531 (SMTPUTF8),
// RFC 8689 (REQUIRETLS) and RFC 7293 (RRVS): a well-formed list must reach the backend with exactly
// the decoded values and every other field zero; a list with an unknown keyword, a missing or
// superfluous value or a malformed value must be refused with a 5xx reply and no callback.
// Not judged: the same keyword twice (no RFC says which one wins), the size limit, AUTH mailboxes
// other than <> and a plain dot-atom address.

import (
	"fmt"
	"net/textproto"
	"os"
	"reflect"
	"sort"
	"strings"
	"testing"
	"time"
)

type paramSession struct {
	pathSession
	mailOpts *MailOptions
	rcptOpts *RcptOptions
}

func (s *paramSession) Mail(from string, o *MailOptions) error {
	s.calls++
	s.mailOpts = o
	return nil
}
func (s *paramSession) Rcpt(to string, o *RcptOptions) error {
	s.calls++
	s.rcptOpts = o
	return nil
}

// refParams splits a parameter list by the esmtp-param grammar. ok=false: not derivable.
func refParams(s string) (keys []string, vals map[string]string, hasVal map[string]bool, ok bool, dup bool) {
	vals, hasVal = map[string]string{}, map[string]bool{}
	if s == "" {
		return nil, vals, hasVal, true, false
	}
	for _, p := range strings.Split(s, " ") {
		if p == "" {
			// two spaces in a row: not derivable, but tolerating extra blanks is a common leniency: not judged
			return nil, vals, hasVal, true, true
		}
		k, v := p, ""
		hv := false
		if i := strings.IndexByte(p, '='); i >= 0 {
			k, v, hv = p[:i], p[i+1:], true
		}
		if k == "" || !isAlnum(k[0]) {
			return nil, nil, nil, false, false
		}
		for i := 0; i < len(k); i++ {
			if !isAlnum(k[i]) && k[i] != '-' {
				return nil, nil, nil, false, false
			}
		}
		if hv {
			if v == "" {
				return nil, nil, nil, false, false
			}
			for i := 0; i < len(v); i++ {
				if v[i] < 33 || v[i] > 126 || v[i] == '=' {
					return nil, nil, nil, false, false
				}
			}
		}
		K := strings.ToUpper(k)
		if _, seen := hasVal[K]; seen {
			dup = true
		}
		keys = append(keys, K)
		vals[K], hasVal[K] = v, hv
	}
	return keys, vals, hasVal, true, dup
}

func refXtextValue(v string) (string, bool) {
	out, strict, bad := refXtext(v)
	return out, strict && !bad
}

// refMail: expected MailOptions for a parameter list, or the reason why it must be refused.
func refMail(s string) (*MailOptions, string, bool) {
	keys, vals, hasVal, ok, dup := refParams(s)
	if !ok {
		return nil, "not-an-esmtp-param-list", true
	}
	if dup {
		return nil, "", false // not judged
	}
	o := &MailOptions{}
	for _, k := range keys {
		v, hv := vals[k], hasVal[k]
		switch k {
		case "SIZE":
			if !hv || len(v) > 20 {
				return nil, "size-malformed", true
			}
			n := int64(0)
			for i := 0; i < len(v); i++ {
				if v[i] < '0' || v[i] > '9' {
					return nil, "size-malformed", true
				}
				n = n*10 + int64(v[i]-'0')
				if n > 1<<31 {
					return nil, "", false // the accepted range is an implementation limit: not judged
				}
			}
			o.Size = n
		case "BODY":
			switch strings.ToUpper(v) {
			case "7BIT", "8BITMIME", "BINARYMIME":
				o.Body = BodyType(strings.ToUpper(v))
			default:
				return nil, "body-malformed", true
			}
		case "RET":
			switch strings.ToUpper(v) {
			case "FULL", "HDRS":
				o.Return = DSNReturn(strings.ToUpper(v))
			default:
				return nil, "ret-malformed", true
			}
		case "ENVID":
			d, ok := refXtextValue(v)
			if !hv || !ok || d == "" || len(v) > 100 {
				return nil, "envid-malformed", true
			}
			for i := 0; i < len(d); i++ {
				if d[i] < 32 || d[i] > 126 {
					return nil, "envid-malformed", true
				}
			}
			o.EnvelopeID = d
		case "AUTH":
			d, ok := refXtextValue(v)
			if !hv || !ok || d == "" {
				return nil, "auth-malformed", true
			}
			if d == "<>" {
				e := ""
				o.Auth = &e
			} else if kind, mbox := refPath("<" + d + ">"); kind == "valid" {
				o.Auth = &mbox
			} else if kind == "invalid" && !strings.ContainsAny(d, "<>") {
				return nil, "auth-mailbox-malformed", true
			} else {
				return nil, "", false
			}
		case "SMTPUTF8":
			if hv {
				return nil, "smtputf8-with-value", true
			}
			o.UTF8 = true
		case "REQUIRETLS":
			if hv {
				return nil, "requiretls-with-value", true
			}
			o.RequireTLS = true
		default:
			return nil, "unknown-keyword", true
		}
	}
	return o, "", true
}

func refRcpt(s string) (*RcptOptions, string, bool) {
	keys, vals, hasVal, ok, dup := refParams(s)
	if !ok {
		return nil, "not-an-esmtp-param-list", true
	}
	if dup {
		return nil, "", false
	}
	o := &RcptOptions{}
	for _, k := range keys {
		v, hv := vals[k], hasVal[k]
		switch k {
		case "NOTIFY":
			if !hv {
				return nil, "notify-malformed", true
			}
			seen := map[string]bool{}
			var list []DSNNotify
			for _, w := range strings.Split(v, ",") {
				W := strings.ToUpper(w)
				switch W {
				case "NEVER", "SUCCESS", "FAILURE", "DELAY":
				default:
					return nil, "notify-malformed", true
				}
				if seen[W] {
					return nil, "notify-keyword-twice", true
				}
				seen[W] = true
				list = append(list, DSNNotify(W))
			}
			if seen["NEVER"] && len(list) > 1 {
				return nil, "notify-never-not-alone", true
			}
			o.Notify = list
		case "ORCPT":
			i := strings.IndexByte(v, ';')
			if !hv || i <= 0 || i == len(v)-1 {
				return nil, "orcpt-malformed", true
			}
			switch strings.ToUpper(v[:i]) {
			case "RFC822":
				d, ok := refXtextValue(v[i+1:])
				if !ok {
					return nil, "orcpt-malformed", true
				}
				for j := 0; j < len(d); j++ {
					if d[j] < 32 || d[j] > 126 {
						return nil, "orcpt-malformed", true
					}
				}
				o.OriginalRecipientType, o.OriginalRecipient = DSNAddressTypeRFC822, d
			case "UTF-8":
				d, strict, bad := refUTF8AddrXtext(v[i+1:])
				if bad {
					return nil, "orcpt-malformed", true
				}
				if !strict {
					return nil, "", false
				}
				o.OriginalRecipientType, o.OriginalRecipient = DSNAddressTypeUTF8, d
			default:
				return nil, "orcpt-unknown-address-type", true
			}
		case "RRVS":
			if !hv {
				return nil, "rrvs-malformed", true
			}
			ts := v
			if i := strings.IndexByte(v, ';'); i >= 0 {
				ts = v[:i]
				if a := v[i+1:]; a != "C" && a != "R" && a != "c" && a != "r" {
					return nil, "rrvs-bad-action", true
				}
			}
			t, err := time.Parse(time.RFC3339, ts)
			if err != nil {
				return nil, "rrvs-malformed", true
			}
			o.RequireRecipientValidSince = t
		default:
			return nil, "unknown-keyword", true
		}
	}
	return o, "", true
}

func TestBoundedC11Params(t *testing.T) {
	maxTok := 5
	if os.Getenv("VERIF_TIER") == "thorough" {
		maxTok = 6
	}
	mailTok := []string{"SIZE", "BODY", "RET", "ENVID", "AUTH", "SMTPUTF8", "REQUIRETLS", "=", " ", "12", "8BITMIME", "hdrs", "a+3Db", "<>", "X", "+"}
	rcptTok := []string{"NOTIFY", "ORCPT", "RRVS", "=", " ", ",", ";", "NEVER", "success", "DELAY", "rfc822", "utf-8", "a+3Db", "2014-04-03T23:01:00Z", "C", "X"}
	bound := fmt.Sprintf("MAIL FROM:<a@b> / RCPT TO:<a@b> followed by a space and every concatenation of <= %d tokens from 16 tokens per command (keywords, '=', space, ',', ';', sample values, an unknown keyword), all extensions enabled", maxTok)

	sess := &paramSession{}
	rwc := &boundedRWC{}
	srv := &Server{EnableSMTPUTF8: true, EnableREQUIRETLS: true, EnableBINARYMIME: true, EnableDSN: true, EnableRRVS: true}
	c := &Conn{text: textproto.NewConn(rwc), server: srv, conn: boundedConn{}, session: sess, helo: "x"}
	classes := map[string]*boundedResult{}
	total := 0
	disagree := func(class, in, detail string) {
		r := classes[class]
		if r == nil {
			r = &boundedResult{name: "esmtp-params-vs-rfcs[" + class + "]", bound: bound}
			classes[class] = r
		}
		r.n++
		if r.failDetail == "" || len(in) < len(r.failInput) {
			r.failInput, r.failDetail = in, detail
		}
	}
	run := func(cmd, params string) (called bool, reply string) {
		sess.calls, sess.mailOpts, sess.rcptOpts = 0, nil, nil
		rwc.Reset()
		c.recipients, c.bdatPipe = nil, nil
		if cmd == "RCPT" {
			c.fromReceived = true
			c.handleRcpt("TO:<a@b> " + params)
		} else {
			c.fromReceived = false
			c.handleMail("FROM:<a@b> " + params)
		}
		return sess.calls > 0, strings.TrimSpace(rwc.String())
	}
	judge := func(cmd, params string) {
		if params == "" || strings.HasPrefix(params, " ") || strings.HasSuffix(params, " ") {
			return // leading/trailing blanks are trimmed by the command parser before the handler: not judged here
		}
		total++
		var want interface{}
		var reason string
		var judged bool
		if cmd == "MAIL" {
			o, r, j := refMail(params)
			want, reason, judged = o, r, j
			if o == nil {
				want = nil
			}
		} else {
			o, r, j := refRcpt(params)
			want, reason, judged = o, r, j
			if o == nil {
				want = nil
			}
		}
		if !judged {
			return
		}
		called, reply := run(cmd, params)
		if reason != "" {
			if called {
				disagree(cmd+":accepts:"+reason, params, "must be refused ("+reason+") but the backend was called; reply "+reply)
			} else if len(reply) < 3 || reply[0] != '5' {
				disagree(cmd+":refusal-is-not-5xx", params, reply)
			}
			return
		}
		if !called {
			disagree(cmd+":refuses-well-formed-parameters", params, reply)
			return
		}
		if cmd == "MAIL" {
			if !reflect.DeepEqual(sess.mailOpts, want) {
				disagree(cmd+":wrong-option-values", params, fmt.Sprintf("backend received %+v (Auth %v), the line says %+v", *sess.mailOpts, derefStr(sess.mailOpts.Auth), *(want.(*MailOptions))))
			}
		} else {
			got, w := sess.rcptOpts, want.(*RcptOptions)
			if !reflect.DeepEqual(got.Notify, w.Notify) && !(len(got.Notify) == 0 && len(w.Notify) == 0) || got.OriginalRecipient != w.OriginalRecipient || got.OriginalRecipientType != w.OriginalRecipientType || !got.RequireRecipientValidSince.Equal(w.RequireRecipientValidSince) {
				disagree(cmd+":wrong-option-values", params, fmt.Sprintf("backend received %+v, the line says %+v", *got, *w))
			}
		}
	}
	shortStrings(mailTok, maxTok, func(s string) { judge("MAIL", s) })
	shortStrings(rcptTok, maxTok, func(s string) { judge("RCPT", s) })
	var names []string
	for k := range classes {
		names = append(names, k)
	}
	sort.Strings(names)
	for _, k := range names {
		classes[k].print(t)
	}
	all := &boundedResult{name: "esmtp-params-vs-rfcs", bound: bound, n: total}
	all.print(t)
}

func derefStr(p *string) string {
	if p == nil {
		return "<nil>"
	}
	return fmt.Sprintf("%q", *p)
}
