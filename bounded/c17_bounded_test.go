package smtp

// BOUNDED stand-in (never counted as proved) for the client half of C17: the reply that the real
// writeResponse/writeError puts on the wire for a backend SMTPError is turned back into an equal
// SMTPError by the real client path (Client.readResponse: textproto.ReadResponse + toSMTPErr), whether or
// not the client has learnt the server's capabilities yet. The deductive check covers
// the server half (what is written); the client half parses text with library code.

import (
	"bytes"
	"fmt"
	"net/textproto"
	"strings"
	"testing"
)

func TestBoundedC17(t *testing.T) {
	res := &boundedResult{name: "smtperror-wire-roundtrip", bound: "codes {421,450,451,452,550,552,554}; enhanced codes {unset, x.0.0, x.7.1, x.1.10, x.12.345} of the code's class; messages: all strings of length <= 5 over {a,5,.,-,space,%,LF} whose lines are non-empty and neither start nor end with a space"}
	var msgs []string
	shortStrings([]string{"a", "5", ".", "-", " ", "%", "\n"}, 5, func(s string) {
		if s == "" {
			return
		}
		for _, l := range strings.Split(s, "\n") {
			if l == "" || l[0] == ' ' || l[len(l)-1] == ' ' {
				return
			}
		}
		msgs = append(msgs, s)
	})
	for _, code := range []int{421, 450, 451, 452, 550, 552, 554} {
		cls := code / 100
		for _, enh := range []EnhancedCode{EnhancedCodeNotSet, {cls, 0, 0}, {cls, 7, 1}, {cls, 1, 10}, {cls, 12, 345}} {
			for _, msg := range msgs {
				res.n++
				rwc := &boundedRWC{}
				c := &Conn{text: textproto.NewConn(rwc), server: &Server{}, conn: boundedConn{}}
				want := &SMTPError{Code: code, EnhancedCode: enh, Message: msg}
				c.writeError(451, EnhancedCode{4, 0, 0}, want)
				wire := rwc.String()
				wantEnh := enh
				if wantEnh == EnhancedCodeNotSet {
					wantEnh = EnhancedCode{cls, 0, 0}
				}
				// the real client path, before and after capabilities have been learnt
				for _, ext := range []map[string]string{nil, {"ENHANCEDSTATUSCODES": ""}} {
					cl := &Client{text: textproto.NewConn(&boundedRWC{Buffer: *bytes.NewBufferString(wire)}), ext: ext}
					_, _, err := cl.readResponse(250)
					got, ok := err.(*SMTPError)
					if !ok {
						res.fail(fmt.Sprintf("%#v", want), fmt.Sprintf("wire %q: the client reports %v", wire, err))
						continue
					}
					if got.Code != code || got.EnhancedCode != wantEnh || got.Message != msg {
						res.fail(fmt.Sprintf("%#v", want), fmt.Sprintf("wire %q comes back as %#v (capabilities known: %v)", wire, got, ext != nil))
					}
				}
			}
		}
	}
	res.print(t)
}
