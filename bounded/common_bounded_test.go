package smtp

// Helpers shared by the bounded stand-ins (see the header of each *_bounded_test.go file).

import (
	"fmt"
	"testing"
	"unicode/utf8"
)

type boundedResult struct {
	name, bound string
	n           int
	failInput   string
	failDetail  string
}

func (r *boundedResult) fail(in, detail string) {
	if r.failInput == "" && r.failDetail == "" {
		r.failInput, r.failDetail = in, detail
	}
}

func (r *boundedResult) print(t *testing.T) {
	if r.failDetail != "" {
		fmt.Printf("BOUNDED name=%s evaluations=%d bound=%q status=FAIL input=%q detail=%q\n", r.name, r.n, r.bound, r.failInput, r.failDetail)
		t.Fail()
		return
	}
	fmt.Printf("BOUNDED name=%s evaluations=%d bound=%q status=ok\n", r.name, r.n, r.bound)
}

// the domain of the property: printable ASCII or non-ASCII UTF-8 text
func inDomain(r rune) bool {
	if r >= 0x20 && r <= 0x7e {
		return true
	}
	return r >= 0x80 && utf8.ValidRune(r)
}

func shortStrings(alphabet []string, maxLen int, f func(string)) {
	var rec func(prefix string, left int)
	rec = func(prefix string, left int) {
		f(prefix)
		if left == 0 {
			return
		}
		for _, a := range alphabet {
			rec(prefix+a, left-1)
		}
	}
	rec("", maxLen)
}

