package smtp

// BOUNDED stand-in (never counted as proved) for the composition clause of C16 that the deductive
// check leaves to the standard library: what the client's DATA writer (textproto's dot writer, the one
// Client.Data hands out) puts on the wire for a body, read back by the server's real dataReader, is
// the body with bare LF normalised to CRLF and a final CRLF ensured - whatever the partition of the
// body into Write calls and whatever the buffer size of the reading backend. The deductive check
// covers the reader (C01) and the Close protocol (C16); this joins the two ends.

import (
	"bufio"
	"bytes"
	"fmt"
	"io"
	"net/textproto"
	"os"
	"strings"
	"testing"
)

// normalise: bare LF -> CRLF, final CRLF ensured (bodies contain CR only as part of CRLF)
func c16normalise(body string) string {
	var sb strings.Builder
	for i := 0; i < len(body); i++ {
		if body[i] == '\n' && (i == 0 || body[i-1] != '\r') {
			sb.WriteString("\r\n")
		} else {
			sb.WriteByte(body[i])
		}
	}
	out := sb.String()
	if !strings.HasSuffix(out, "\r\n") {
		out += "\r\n"
	}
	return out
}

func TestBoundedC16(t *testing.T) {
	maxTok := 6
	if os.Getenv("VERIF_TIER") == "thorough" {
		maxTok = 8
	}
	res := &boundedResult{name: "dotwriter-datareader-composition", bound: fmt.Sprintf("all bodies of <= %d tokens over {., LF, CRLF, a, \"..\"}; written in one Write, in every 2-split and byte by byte; read back with buffer sizes 1, 2, 3 and 4096; followed on the wire by a further command that must stay unread", maxTok)}
	send := func(body string, cuts []int) []byte {
		var wire bytes.Buffer
		w := textproto.NewWriter(bufio.NewWriter(&wire))
		dw := w.DotWriter()
		prev := 0
		for _, c := range cuts {
			dw.Write([]byte(body[prev:c]))
			prev = c
		}
		dw.Write([]byte(body[prev:]))
		dw.Close()
		return wire.Bytes()
	}
	receive := func(wire []byte, bufSize int) (string, string, error) {
		br := bufio.NewReader(bytes.NewReader(append(append([]byte{}, wire...), []byte("NOOP\r\n")...)))
		dr := &dataReader{r: br}
		var got []byte
		buf := make([]byte, bufSize)
		for {
			n, err := dr.Read(buf)
			got = append(got, buf[:n]...)
			if err == io.EOF {
				break
			}
			if err != nil {
				return string(got), "", err
			}
		}
		rest, _ := io.ReadAll(br)
		return string(got), string(rest), nil
	}
	check := func(body string, cuts []int) {
		wire := send(body, cuts)
		want := c16normalise(body)
		for _, bs := range []int{1, 2, 3, 4096} {
			res.n++
			got, rest, err := receive(wire, bs)
			if err != nil {
				res.fail(body, fmt.Sprintf("cuts %v, read buffer %d: reader fails: %v", cuts, bs, err))
			} else if got != want {
				res.fail(body, fmt.Sprintf("cuts %v, read buffer %d: backend reads %q, want %q (wire %q)", cuts, bs, got, want, wire))
			} else if rest != "NOOP\r\n" {
				res.fail(body, fmt.Sprintf("cuts %v, read buffer %d: after the message the stream holds %q, want the next command", cuts, bs, rest))
			}
		}
	}
	shortStrings([]string{".", "\n", "\r\n", "a", ".."}, maxTok, func(body string) {
		check(body, nil)
		for c := 1; c < len(body); c++ {
			check(body, []int{c})
		}
		if len(body) > 2 {
			var all []int
			for c := 1; c < len(body); c++ {
				all = append(all, c)
			}
			check(body, all)
		}
	})
	res.print(t)
}
