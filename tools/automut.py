#!/usr/bin/env python3
"""Systematic operator mutants of the functions under contract (a search for holes in the contracts,
complementing the hand-written and sub-agent changes): every mutant that compiles and passes the
test suite is checked with the properties its enclosing function is tagged with; the ones no check
reports are printed for triage (equivalent mutant, behaviour no property speaks about, or a hole).
usage: automut.py <file.go> [--max N] [--jobs J] [--func NAME] [--uncontracted] [--calls]"""
import re, sys, os, subprocess, tempfile, shutil, json, concurrent.futures

ENV = dict(os.environ, GOFLAGS="-mod=mod", GOPROXY="off", GOSUMDB="off", GOTOOLCHAIN="local")
REPO = "/repo"

def func_props():
    m = {}
    cur = None
    for l in open(os.path.join(REPO, "contracts_verif.go")):
        a = re.match(r"//@ contract (\S+)\(", l)
        if a:
            cur = a.group(1)
            continue
        b = re.match(r"//@\s+prop (.*)", l)
        if b and cur:
            m[cur] = b.group(1).split()
            continue
        if cur and l.startswith("//@"):
            # clause tags count too (a clause may carry a property the prop line does not repeat)
            for t in re.findall(r"@(C\d\d(?:,C\d\d)*)", l):
                for x in t.split(","):
                    if x not in m.get(cur, []):
                        m.setdefault(cur, []).append(x)
    return m

def enclosing(lines, i):
    for k in range(i, -1, -1):
        a = re.match(r"func (\(\w+ (\*?\w+)\) )?(\w+)\(", lines[k])
        if a:
            recv, name = a.group(2), a.group(3)
            if recv:
                return "(%s).%s" % (recv, name) if recv.startswith("*") else "%s.%s" % (recv, name)
            return name
    return None

OPS = [
    (r" == ", " != "), (r" != ", " == "), (r" < ", " <= "), (r" <= ", " < "), (r" > ", " >= "), (r" >= ", " > "),
    (r" && ", " || "), (r" \|\| ", " && "), (r"\btrue\b", "false"), (r"\bfalse\b", "true"),
    (r" \+= ", " = "), (r"\+\+$", "--"),
]

def mutants(path, only_func):
    lines = open(path).read().split("\n")
    out = []
    for i, l in enumerate(lines):
        s = l.strip()
        if not s or s.startswith("//") or s.startswith("func ") or s.startswith("case ") and False:
            continue
        fn = enclosing(lines, i)
        if fn is None or (only_func and fn != only_func):
            continue
        if "--calls" in sys.argv:
            # second operator family: a forgotten step - a statement that is just a call (also defer/go) is dropped
            if re.match(r"^\s*(defer |go )?[\w.]+(\([^()]*\))?\.?[\w.]*\(.*\)$", l) and not s.startswith(("return", "if", "for", "switch", "case", "func", "//")) and not re.match(r"^\s*c\.(reset|Close)\(\)$", l):
                out.append((i, fn, l, re.match(r"^\s*", l).group(0) + "_ = 0 // deleted: " + s))
            continue
        for pat, rep in OPS:
            for m in re.finditer(pat, l):
                if '"' in l[:m.start()] and l[:m.start()].count('"') % 2 == 1:
                    continue  # inside a string literal
                nl = l[:m.start()] + rep + l[m.end():]
                out.append((i, fn, l, nl))
        # statement deletion: simple assignments to fields and calls of reset/Close
        if re.match(r"^\s*(\w+\.)+\w+ = [^=].*$", l) and not l.rstrip().endswith("{"):
            out.append((i, fn, l, re.match(r"^\s*", l).group(0) + "_ = 0 // deleted: " + s))
        if re.match(r"^\s*c\.(reset|Close)\(\)$", l):
            out.append((i, fn, l, re.match(r"^\s*", l).group(0) + "_ = 0 // deleted: " + s))
    return lines, out

def run_one(args):
    path, rel, lines, (i, fn, old, new), props = args
    tmp = tempfile.mkdtemp(prefix="automut")
    try:
        dst = os.path.join(tmp, "repo")
        shutil.copytree(REPO, dst, symlinks=True)
        ml = list(lines)
        ml[i] = new
        open(os.path.join(dst, rel), "w").write("\n".join(ml))
        r = subprocess.run(["go", "test", "-vet=off", "-count=1", "-timeout", "90s", "./..."], cwd=dst, env=ENV, stdout=subprocess.PIPE, stderr=subprocess.STDOUT, text=True)
        if r.returncode != 0:
            return (i, fn, old, new, "killed-by-suite-or-build", "")
        detected = []
        for p in props:
            c = subprocess.run(["/verif/bin/govc", "check", p, "-repo", dst, "-no-evidence"], stdout=subprocess.PIPE, stderr=subprocess.STDOUT, text=True, env=dict(ENV, VERIF_MUTANT="1"))
            if c.returncode != 0:
                first = [x for x in c.stdout.split("\n") if "failed obligation" in x or "GENERATOR" in x]
                detected.append(p + ": " + (first[0].strip()[:140] if first else "?"))
                break
        return (i, fn, old, new, "detected" if detected else "NOT-DETECTED", "; ".join(detected))
    finally:
        shutil.rmtree(tmp, ignore_errors=True)

# functions without a contract of their own (inlined into their callers, or behind a stub / a bounded
# stand-in): the properties whose checks should notice a change in them (--uncontracted)
FALLBACK = {
    "(*Conn).init": ["C10", "C19"], "(*Conn).setSession": ["C08", "C20"], "(*Conn).TLSConnectionState": ["C09", "C12"],
    "(*Conn).authAllowed": ["C09", "C12"], "decodeXtext": ["C11", "C14"], "decodeUTF8AddrXtext": ["C11", "C14"],
    "decodeSASLResponse": ["C09"], "dataErrorToStatus": ["C04", "C17", "C13"], "(*Conn).Reject": ["C04", "C08"],
    "NewClientLMTP": ["C18"], "SendMail": ["C10", "C16"], "SendMailTLS": ["C10", "C16"], "(*Client).Extension": ["C15", "C10"],
    "(*Client).SupportsAuth": ["C15", "C09"], "(*Client).MaxMessageSize": ["C15"], "parseEnhancedCode": ["C17"], "toSMTPErr": ["C17"],
    "(*Server).ListenAndServe": ["C20"], "(*Server).ListenAndServeTLS": ["C20"], "(*Server).network": ["C20"],
    "cutPrefixFold": ["C11", "C19"], "parseCmd": ["C19", "C04"], "(*parser).peekByte": ["C11"], "(*parser).readByte": ["C11"],
    "(*parser).acceptByte": ["C11"], "(*parser).expectByte": ["C11"], "(*SMTPError).Error": ["C17"], "(*SMTPError).Temporary": ["C17"],
}

def main():
    rel = sys.argv[1]
    mx = int(sys.argv[sys.argv.index("--max") + 1]) if "--max" in sys.argv else 10**9
    jobs = int(sys.argv[sys.argv.index("--jobs") + 1]) if "--jobs" in sys.argv else 4
    only = sys.argv[sys.argv.index("--func") + 1] if "--func" in sys.argv else None
    fp = func_props()
    path = os.path.join(REPO, rel)
    lines, ms = mutants(path, only)
    work = []
    for m in ms:
        props = fp.get(m[1])
        if "--uncontracted" in sys.argv:
            props = None if props else FALLBACK.get(m[1])
        if not props:
            continue
        work.append((path, rel, lines, m, props))
    work = work[:mx]
    print("%d mutants of functions under contract in %s" % (len(work), rel), flush=True)
    stats = {}
    with concurrent.futures.ThreadPoolExecutor(max_workers=jobs) as ex:
        for res in ex.map(run_one, work):
            i, fn, old, new, st, det = res
            stats[st] = stats.get(st, 0) + 1
            if st == "NOT-DETECTED":
                print("NOT-DETECTED %s:%d %s\n   - %s\n   + %s" % (rel, i + 1, fn, old.strip(), new.strip()), flush=True)
    print("summary", rel, json.dumps(stats), flush=True)

if __name__ == "__main__":
    main()
