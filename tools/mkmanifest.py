#!/usr/bin/env python3
"""Regenerates /verif/MANIFEST.json from the table below (claimed properties, level texts)."""
import json, subprocess, os

ROOT = os.path.dirname(os.path.dirname(os.path.abspath(__file__)))
ALL = ["C%02d" % i for i in range(1, 21)]

COMMON_NOTE = ("Trusted base: go/ssa construction of /repo (x/tools v0.29.0), the govc VC generator, the SMT solvers, "
               "and the trusted library/back-end stubs listed in the evidence file (trusted_base). Goroutine interleavings, "
               "termination, timing and panics raised by backend callbacks are outside the sequential VCs. ")

T = "contract-based deductive verification: WP/passive VCs over go/ssa of /repo, contracts in //@ comments, discharged by z3/cvc5"

CLAIMS = {
 "C01": dict(
   text="Deductive proof, for all octet streams, read sizes and segmentations: the loop of (*dataReader).Read is a lock-step simulation of the RFC 5321 dot-unstuffing transducer written from the property text (6 states x 4 octet classes, one obligation per cell), stated over the absolute position in the ghost input stream, so composition over calls and independence of segmentation and read sizes are immediate. Every obligation is an SMT query generated from go/ssa of the current /repo; unsat = discharged.",
   note=COMMON_NOTE + "Assumed: bufio.Reader.ReadByte/UnreadByte stubs (octets delivered in order whatever the segmentation); the definitional axioms of the k-th-output-octet function outv.",
   design="3.C01", technique=T + "; loop invariant as simulation of a spec transducer"),
 "C02": dict(
   text="Deductive proof: (a) end detection is the state component of the C01 simulation (only <CRLF>.<CRLF> or a leading .<CRLF> reaches END; nothing is read after END); (b) handleData ensures, on every path and whatever the backend stub did with the reader (read all, part, nothing; any result), that the spec transducer started at the 354 is in END at the stream position reached (or the connection failed), i.e. the next command is parsed exactly after the end marker. The LMTP paths (fallback and goroutine delivery) carry the same resynchronisation post; at the size limit the reader consumes nothing but the end marker (skipEndMarker contract).",
   note=COMMON_NOTE + "Assumed: Session.Data stub (backend reads any prefix of the reader and does not keep it), io.Copy stub (reads until error, terminates), bufio stubs.",
   design="3.C02", technique=T),
 "C03": dict(
   text="Deductive proof: representation invariant connInv(Conn) preserved by every command handler and by the command loop (loop invariant), hence after every command history; the ordering clauses of the property are the preconditions of the backend-callback stubs (Mail only when greeted and no transfer in progress, Rcpt only after accepted Mail and below the limit, Data only with >=1 accepted Rcpt, NewSession only without a session and with the greeting name already visible), checked at every real call site; refusal branches ensure 5xx and unchanged callback counters; transaction ends ensure sender/recipients discarded and Reset signalled.",
   note=COMMON_NOTE + "Assumed: backend callbacks do not re-enter Conn.Close/Reject; NewSession returns a fresh non-nil session on success. Re-greeting (HELO/EHLO/LHLO accepted on an existing session) and STARTTLS end the transaction like RSET.",
   design="3.C03", technique=T + "; data-structure invariant + call-site preconditions on callback stubs"),
 "C05": dict(
   text="Deductive proof on handleBdat/discardChunk: framing post on every return path (declared size well-formed => stream position advanced by exactly the declared size, refusals included, or the connection failed; nothing read for a malformed command), clean close of the pipe only after a complete LAST chunk (call-site obligation), one final reply per command, line limit lifted during the copy and restored on every exit. Transparency of the payload is the io.Copy/LimitReader stub (no transformation).",
   note=COMMON_NOTE + "Assumed: io.Copy / io.LimitReader / io.Pipe stubs; strconv.ParseUint and strings.Fields as deterministic functions. BOUNDED stand-in (labelled bounded, never counted as proved; bufio and textproto.ReadLine sit between the limiter and the handler and are library code behind a stub): the real server stack (newConn + handleConn) on a scripted connection whose every Read returns one scripted segment - 16 payloads (0..5000 octets, without LF around the line limit, 8-bit, LF-rich, end-marker and command look-alikes) in one or two chunks, segmented at the command boundaries, not at all and at every position around the BDAT line (thorough: every position of the short payloads), followed by NOOP and QUIT: the backend gets the payload, the following commands stay in step. It found and now guards the read-ahead defect repaired by 4981975.",
   design="3.C05", technique=T),
 "C06": dict(
   text="Deductive proof: reader budget invariant delivered + n == limit (so never more than N octets over any sequence of reads), newDataReader takes the budget from MaxMessageBytes, ErrDataTooLarge only with an exhausted budget AND only when more of the message follows (a message of exactly N octets is accepted: limit-transparency clause, proved after fix f7f3907), SIZE > N refused before the Mail callback (stub precondition), BDAT accumulation bounded by N (connInv conjunct, over-limit chunk discarded and transaction reset).",
   note=COMMON_NOTE + "Assumed: bufio Peek/Discard stubs (Peek of at most 3 octets below the buffer size). When the transport fails while the end marker is being looked for the reader reports ErrDataTooLarge rather than the I/O error.",
   design="3.C06", technique=T),
 "C07": dict(
   text="Deductive proof: Read returns io.EOF only in spec state END (network EOF becomes ErrUnexpectedEOF); the BDAT pipe is closed cleanly only after a complete LAST chunk (short chunk => error), every abort path (RSET, QUIT/Close, new EHLO, failed chunk, end of the command loop) closes it with a non-nil error; handleConn ensures no transfer is left open at exit.",
   note=COMMON_NOTE + "Assumed: io.Pipe semantics (CloseWithError(e!=nil) is seen as e by the reader). Not decided: timeouts while a chunk is being copied.",
   design="3.C07", technique=T),
 "C08": dict(
   text="Deductive proof: ghost counters cbNew/cbLogout and the per-session ghost loggedOut; invariant cbNew - cbLogout == (session != nil), Logout stub requires !loggedOut and every other callback stub requires a current, not-logged-out session on a connection that is not closed; Close ensures closed, session logged out exactly once, idempotent; handle requires !closed and the command loop leaves once the connection was closed; handleConn ensures closed and cbNew == cbLogout on every exit; the Logout call sites of Close and handleStartTLS lie inside a critical section of Conn.locker (lockset dataflow obligation shared with C20).",
   note=COMMON_NOTE + "Not decided: atomicity of Logout against a concurrent Server.Close; goroutine lifetime.",
   design="3.C08", technique=T),
 "C09": dict(
   text="Deductive proof (server half): AuthSession.Auth and sasl.Server.Next stubs require authAllowed (TLS or AllowInsecureAuth), a prior greeting and !didAuth at every real call site; handleAuth ensures didAuth changes only to true and only together with a 235, refusal codes for missing greeting / repeated AUTH / insecure connection without any mechanism call; STARTTLS erases didAuth.",
   note=COMMON_NOTE + "Assumed: base64 stubs. Client half: Auth keeps in step with the server (every line written has had its reply read at each loop iteration, one line per step), lines are CR/LF-free. BOUNDED stand-in (not a proof, reported separately): the real Client.Auth against the real server over net.Pipe with scripted mechanisms on both sides (852 exchanges: absent/empty/binary initial responses, up to two challenge rounds, acceptance, refusal, client-side mechanism failure) - octets cross unaltered in both directions, the result is the server's final reply, the connection stays in command mode, a second AUTH after success gets 503 without consulting the mechanism.",
   design="3.C09", technique=T),
 "C10": dict(
   text="Deductive proof (server half): handleStartTLS accepted only when TLS is configured and not active (tls.Server stub preconditions), success path ensures all plaintext state gone (helo, didAuth, envelope, session logged out and cleared) and a NEW textproto.Conn with a new empty bufio.Reader and a new line limiter reading from the TLS connection (store of conn before init()), refusal/failed handshake changes nothing.",
   note=COMMON_NOTE + "Assumed: tls.Server / Handshake / textproto.NewConn stubs. Client half: startTLS only if STARTTLS is in ext (initStartTLS), success switches to a new TLS transport with new buffers and forgets didHello (capabilities are renegotiated), DialStartTLS/NewClientStartTLS return no client on failure, sendMail calls Auth/SendMail only on a TLS transport. Assumed: tls.Client is lazy and fails closed.",
   design="3.C10", technique=T),
 "C04": dict(
   text="Deductive proof: (count) every handler ensures exactly one final reply per command (one per accepted recipient for LMTP DATA / BDAT LAST, plus the closing 500 when the error threshold is passed, or a failed read), counted by ghost counters maintained by writeResponse; (shape) writeResponse requires, at EVERY real call site, a reply code in 200..599, an enhanced code of the same class (or unset/absent only for greeting, EHLO, 3xx) and reply text free of C0 controls other than HT/LF and of DEL (character-class predicate, closed under concatenation/Sprintf); (attribution) the value written after DATA/BDAT is the result of this call's callback / received from this transfer's result channel (call-site and receive-site obligations). Text taken from the peer reaches a reply only through replyText, whose contract gives the text clause (seven echo sites failed it before fix 1f39509); the EHLO capability list is covered element by element through the keyword abstraction.",
   note=COMMON_NOTE + "Assumed: backend SMTPError values carry a 4xx/5xx code, an enhanced code of the same class and clean text; error texts and mechanism names supplied by the backend are clean; Server.Domain is clean. Not decided: reply order under segmentation below bufio (inherited from the ReadLine stub); the stale-result race of the BDAT goroutine (C20).",
   design="3.C04", technique=T + "; call-site preconditions on the single reply writer"),
 "C11": dict(
   text="Deductive proof of the flow and refusal halves: at the real Session.Mail / Session.Rcpt call sites the mailbox is the value returned by the path parser for this line (and the parser and the parameter splitter reported no error), the options object is new, and every option field equals the decoded value of the parameter present on the line or is zero when the parameter is absent (SIZE, SMTPUTF8, REQUIRETLS, BODY, RET, ENVID, AUTH presence, NOTIFY element by element, ORCPT type and address, RRVS time), only known parameters were present, each present parameter was well-formed (SIZE numeric, BODY/RET from the fixed sets, ENVID/ORCPT xtext decodable and printable, NOTIFY from the four keywords, none twice, NEVER alone) - loop invariants over the Go map iteration (visited-set ghost), checked for every path through the parameter switches; refusals are 5xx (4xx only for the recipient limit) with unchanged callback counters (shared with C03); parameters of disabled extensions are refused (shared with C12). decodeTypedAddress and checkNotifySet are proved against specifications written from RFC 3461 4.1/4.2. The hand-written path parser (parseReversePath, parsePath, parseMailbox, parseLocalPart) is under functional contract for every input, octet by octet: the input is consumed from the front, an unquoted mailbox is handed on literally as the text between the brackets, it holds no special, blank, closing bracket or control octet, a quoted-string ends at its closing quote (recursive spec function for the escapes), a path is refused only for its mailbox or a missing closing bracket, and every mailbox of the shape ltext+ @ dtext+ / address literal / quoted local part with content is accepted (completeness posts with the existential in the hypothesis; ltext/dtext are supersets of the RFC alphabets, written from the RFCs); at the handlers the parser is given the rest of this line. The regexp callbacks of the DSN value decoders are proved against the RFC 3461 hexchar and the RFC 6533 HEXPOINT table under the stated assumption about what the regexp engine hands them.",
   note=COMMON_NOTE + "BOUNDED stand-ins, labelled bounded in the evidence and never counted among the proved obligations (kept beside the deductive contracts: they judge what the contracts leave open - placement of dots and hyphens, source routes, the composition of regexp engine and callbacks): (1) the real MAIL/RCPT handlers on every string of length <= 7 (thorough: 8) over 13 syntactically significant characters against a reference Path grammar written from RFC 5321 4.1.2 (valid / definitely invalid / unspecified, one obligation per kind of disagreement; 8 open known findings: leniency about dots, hyphens and the source route); (2) decodeXtext / decodeUTF8AddrXtext against reference decoders from RFC 3461 / 6533 on all strings of <= 5 symbols; (3) the real handlers on MAIL FROM:<a@b> / RCPT TO:<a@b> followed by every concatenation of <= 5 (thorough: 6) tokens out of 16 per command against a reference that computes the expected option values from the extension RFCs (accepted lines compared field by field, malformed ones must be refused; 1 open known finding: RRVS action not examined, pinned by an existing test). ASSUMED (listed in trusted_base): the naming clauses of decodeXtext / decodeUTF8AddrXtext (assumes clauses: the regexp engine replaces every match by what the callback returns), the precondition of the callbacks, the rec-func companion fact of qscan. NOT decided at all: paths with a source route beyond 'skipped up to the colon', an empty quoted local part, repeated keywords, extra blanks, time.Parse as RFC 3339 reference, anything beyond the stated bounds.",
   design="3.C11", technique=T + "; loop invariants over map iteration with a visited-set ghost"),
 "C20": dict(
   text="(a) Ownership obligations, one per access, discharged by the generator's must-hold lockset dataflow over go/ssa (not SMT): Server.listeners/conns only under Server.locker, Conn.closed only under Conn.locker, and the transaction fields dataResult, bdatStatus, recipients, fromReceived, bytesReceived, errCount, binarymime, didAuth, text, lineLimitReader touched only by code that is not reachable from any goroutine other than the command loop (closures started with go, Server.Close, Server.Shutdown are the other thread roots) - a sufficient condition for the absence of data races on those fields; and the calls of Session.Logout and PipeWriter.CloseWithError in Conn.Close and of Session.Logout in handleStartTLS lie inside a critical section of Conn.locker (looking at the session, logging it out and forgetting it is atomic, so overlapping closes log out once). (b) Deductive proof of the sequential kernel: a second Close/Shutdown returns ErrServerClosed, the first one closes the done channel, Close closes every registered connection whatever the listeners return (loop invariant over the map iteration), Serve never returns a temporary Accept error and its back-off stays within [0, 1s] (so no overflow after any run of temporary errors); the BDAT/LMTP delivery goroutines use the values captured at start (call-site and receive-site obligations shared with C04/C13).",
   note=COMMON_NOTE + "NOT decided (honest limits of sequential contracts): deadlock freedom, goroutine leaks, that Shutdown waits for the connections and honours its context, that Close makes a blocked Accept return (listener behaviour), races on fields that have no ownership declaration (session, bdatPipe, helo, conn: guarded in some places and command-loop-owned in others on the unchanged tree, so no uniform rule verifies), atomicity of compound operations under the locks, races inside backend callbacks.",
   design="3.C20", technique=T + "; ownership conditions discharged by a lockset dataflow, sequential contracts by SMT"),
 "C12": dict(
   text="Deductive proof over the whole configuration space at once (flags, limits, TLS state, mechanism list symbolic): at the EHLO reply site of handleGreet each keyword is advertised iff its condition from the property statement holds (STARTTLS iff TLSConfig and not TLS; AUTH iff permitted and mechanisms; REQUIRETLS iff TLS and flag; SMTPUTF8/BINARYMIME/DSN/RRVS iff flag; SIZE / SIZE n / LIMITS RCPTMAX=n with the configured values), nothing else is advertised, HELO lists none; honouring: the callback stubs require every option handed to the backend to belong to an enabled extension, and a 504 is written only for a parameter whose extension is disabled.",
   note=COMMON_NOTE + "The capability slice is tracked by a keyword-membership abstraction of slice literals/append/phi inside the generator (exact or fail closed). Assumed: AuthMechanisms stub.",
   design="3.C12", technique=T + "; keyword-membership abstraction for the capability list"),
 "C13": dict(
   text="Deductive proof of the sequential kernel: createStatusCollector gives one slot per accepted recipient and a channel for every recipient whose capacity is exactly the number of occurrences of that address among the recipients (counting function over the recipient list, loop invariants over the three loops: the k-th status of an address finds room for its k-th occurrence); fillRemaining fills every recipient's channel to capacity and the recover handlers of both delivery goroutines call it on the collector of THIS transfer (so a backend panic still answers every recipient); reset drops the collector with the transaction; the emission loops of handleDataLMTP and handleBdat write exactly one final reply per accepted recipient (loop invariant replies == old + i) and the i-th reply is built from the value received from status[i] (receive-site obligation), in RCPT order; the non-LMTPSession fallback sets the single Data result for every recipient.",
   note=COMMON_NOTE + "BOUNDED stand-in (labelled bounded, never counted as proved; goroutines and channel timing are outside sequential contracts): the real handleDataLMTP / handleBdat on a connection object without network against a scripted backend under a 2 s watchdog - recipient lists of 1..4 (thorough: 5) entries over two addresses, every sub-multiset and order of SetStatus calls placed before / after / around the reading of the message, return nil or error, backend panic, DATA and BDAT LAST, per-recipient and plain backend: one reply per recipient in order naming it, the k-th status set for an address on its k-th occurrence, the return value where none was set, no hang. NOT decided: goroutine schedules other than the ones the runtime happened to choose; deadlock freedom in general.",
   design="3.C13", technique=T),
 "C14": dict(
   text="Deductive proof of the encoder kernel: encodeXtext / encodeUTF8AddrXtext / encodeUTF8AddrUnitext emit, per input rune, the RFC 3461 / RFC 6533 form required by the statement (xchar/QCHAR sent as is; every other 7-bit octet escaped: '+' and exactly two hex digits, resp. a \\x{...} form), their output is a single ESMTP value token without CR/LF (loop invariants over a ghost strings.Builder content and character-class predicates), the client hands ENVID to the xtext encoder only inside its 7-bit printable domain, renders each option under the right keyword only if negotiated (shared with C15) and renders every requested flag and every requested-and-offered option (a 'contains' predicate on the line handed to cmd); server side: the decoded values flow unchanged into the options object (C11 flow).",
   note=COMMON_NOTE + "Assumed: strings.Builder, strconv.FormatInt, strings.ToUpper, time.Format stubs. BOUNDED stand-ins (labelled bounded, never counted as proved; the decoders are regexp-driven): decoder(encoder(x)) = x for xtext on every printable 7-bit octet and all strings of length <= 4 over 15 significant characters, for utf-8-addr-xtext and -unitext on every Unicode scalar value of the domain and all strings of length <= 3 over 18 characters, and the RRVS time to the second on 1.7 million timestamps in three zones. Beyond those bounds the inverse property is not decided.",
   design="3.C14", technique=T + "; per-rune loop obligations over a ghost builder"),
 "C15": dict(
   text="Deductive proof: textproto.Conn.Cmd stub requires the formatted line to be free of CR/LF and is called only from Client.cmd, whose own precondition is checked at every call site with the format expanded (constant formats, arguments built from validateLine'd values, proved-token-safe encoder outputs, checkNotifySet'ed keywords, switch-checked literals); every method ensures nothing written when an argument cannot be sent on one line (validateLine precedes the implicit EHLO), at most the greeting step plus one line otherwise; parameters are rendered only under has(ext, extension) with ext from the latest EHLO; a requested REQUIRETLS / SMTPUTF8 that is not offered is a local error with no MAIL line.",
   note=COMMON_NOTE + "Assumed: fmt/textproto write exactly the formatted string; SASL mechanism names are line-safe; time.Format(RFC3339) output is line-safe.",
   design="3.C15", technique=T + "; character-class predicates + Go-side expansion of constant formats"),
 "C16": dict(
   text="Deductive proof on (*dataCloser).Close and SendMail: a repeated Close is an error with no terminator written and no reply read (the writer is marked closed on entry), the first Close writes exactly one terminator and, non-LMTP, reads exactly one verdict whose error is returned; SendMail passes the sender and the recipients in the order given, one RCPT each.",
   note=COMMON_NOTE + "Assumed: textproto's dot writer implements RFC 5321 dot-stuffing (standard library). BOUNDED stand-in (labelled bounded, never counted as proved; the dot writer is library code): textproto's dot writer as handed out by Client.Data composed with the server's real dataReader gives the body with bare LF normalised and a final CRLF ensured, the next command left unread, for all bodies of <= 6 (thorough: 8) tokens over {., LF, CRLF, a, ..}, every 2-split and byte-by-byte writing, read buffers 1, 2, 3, 4096.",
   design="3.C16", technique=T),
 "C18": dict(
   text="Deductive proof on (*dataCloser).Close (LMTP branch) and Rcpt/Reset: loop invariant replies read == recipients answered, exactly len(accepted recipients of this transaction) replies are read (Close returns), the status callback is called with the recipient whose reply was just read (in order), the recipients are forgotten when the transaction ends (second transaction starts empty), and without a callback the first refusal is remembered and returned.",
   note=COMMON_NOTE + "Assumed: ReadResponse stub. The receive-order obligation uses the call ordinal of readResponse inside Close.",
   design="3.C18", technique=T),
 "C17": dict(
   text="Deductive proof on writeResponse/writeError against a format-record abstraction of PrintfLine: the reply code on the wire is the code given (the SMTPError's own code, else the call site's generic code), a set enhanced code is written verbatim, an unset one as class.0.0 for classes 2/4/5, absent only if explicitly absent. Every line of a multi-line reply is written in one of four forms, carries the reply code and - unless the code is explicitly absent - the same enhanced code (RFC 2034; proved after fix fd23e50, which the go-smtp client needs to return an equal SMTPError).",
   note=COMMON_NOTE + "Assumed: PrintfLine writes exactly the formatted line. BOUNDED stand-in for the client half (labelled bounded, never counted as proved; textproto and string splitting do the parsing): the reply the real writeError puts on the wire comes back through textproto.ReadResponse + toSMTPErr as an equal SMTPError for 7 codes x 5 enhanced codes x all messages of length <= 5 over {a,5,.,-,space,%,LF} with non-empty untrimmed lines.",
   design="3.C17", technique=T),
 "C19": dict(
   text="Deductive proof: lineLimitReader.Read tracks the run length written from the property text (loop invariant), refusal only after a run has exceeded the limit, nothing of the too long line handed out, delivered data only with all runs within the limit, sticky refusal, what was read beyond is kept for a reader that lifts the limit; readLine requires the limit to be active at every call site (command loop invariant, AUTH continuation) and hands the command loop only complete lines (what a read error cuts short is dropped) of at most MaxLineLength octets; protocolError counts and gives up after more than three errors; zero-annotation safety sweep (bounds, nil, type assertion, nil map, explicit panic, overflow) over the functions under contract reachable from handleConn.",
   note=COMMON_NOTE + "Assumed: 0 <= MaxLineLength < MaxInt; the transport does not return data together with an error. Parser functions are under the sweep only where they have contracts in this revision. BOUNDED stand-in (labelled bounded, never counted as proved; the stack above the limiter is library code): MAIL lines of 1990..2010, 3000 and 5000 octets on the real server stack under eight segmentations: within the limit served, more than one octet over it never handed to the backend, answered 500, connection closed.",
   design="3.C19", technique=T),
}

def main():
    hooks_commits = []
    try:
        out = subprocess.check_output(["git", "-C", "/repo", "log", "--format=%H %s"], text=True)
        for l in out.splitlines():
            h, s = l.split(" ", 1)
            if s.startswith("verif:"):
                hooks_commits.append(h)
    except Exception:
        pass
    env = "GOFLAGS=-mod=mod GOPROXY=off GOSUMDB=off GOTOOLCHAIN=local"
    man = {
      "version": 1,
      "setup_cmd": "cd /verif/govc && %s go build -o /verif/bin/govc ." % env,
      "hooks": {
        "guard": "verif",
        "enable": "go build tag `verif` (govc loads /repo with -tags=verif); the tag only adds the comment-only contract file /repo/contracts_verif.go, no code",
        "baseline_off_cmd": "cd /repo && %s go test -vet=off -count=1 ./..." % env,
        "source_commits": hooks_commits,
        "add_only": True,
      },
      "engines": [{"name": "govc", "path": "/verif/govc", "serves_properties": sorted(CLAIMS),
                   "kind_free_text": "verification-condition generator over go/ssa for contracts kept as //@ comments in /repo/contracts_verif.go; obligations discharged by z3 5.1.0 / z3 4.8.12 / cvc5"}],
      "checks": [],
      "notes": "See DESIGN.md. Known findings: known_findings.json. Self-test (must-fail mutants, must-pass refactorings): bin/govc selftest.",
      "not_applicable": [],
    }
    for p in ALL:
        if p in CLAIMS:
            c = CLAIMS[p]
            man["checks"].append({
              "property_id": p,
              "quick_cmd": "bin/govc check %s -tier quick" % p,
              "thorough_cmd": "bin/govc check %s -tier thorough" % p,
              "evidence_file": "/verif/evidence/%s.json" % p,
              "replay_cmd_template": "cat {path}",
              "engine": "govc",
              "level_claimed": {"category": "proof", "text": c["text"], "design_ref": c["design"]},
              "level_note": c["note"],
              "technique": c["technique"],
            })
        else:
            man["not_applicable"].append({"property_id": p, "reason": NA.get(p, "no contract for this property has been discharged yet in this revision of /verif; it is not claimed (see DESIGN.md section 3 for the planned obligations)")})
    json.dump(man, open(os.path.join(ROOT, "MANIFEST.json"), "w"), indent=1)
    print("claimed:", sorted(CLAIMS), "not applicable:", [x["property_id"] for x in man["not_applicable"]])

NA = {}

if __name__ == "__main__":
    main()
