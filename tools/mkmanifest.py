#!/usr/bin/env python3
"""Regenerates /verif/MANIFEST.json from the table below (claimed properties, level texts)."""
import json, subprocess, os

ROOT = os.path.dirname(os.path.dirname(os.path.abspath(__file__)))
ALL = ["C%02d" % i for i in range(1, 21)]

COMMON_NOTE = ("Trusted base: go/ssa construction of /repo (x/tools v0.29.0), the govc VC generator, the SMT solvers, "
               "and the trusted library/back-end stubs listed in the evidence file (trusted_base). Goroutine interleavings, "
               "termination, timing and panics raised by backend callbacks are outside the sequential VCs. ")

CLAIMS = {
 "C01": dict(
   text="Deductive proof, for all octet streams, read sizes and segmentations: the loop of (*dataReader).Read is a lock-step simulation of the RFC 5321 dot-unstuffing transducer written from the property text (6 states x 4 octet classes, one obligation per cell), stated over the absolute position in the ghost input stream, so composition over calls is immediate. Every obligation is an SMT query generated from go/ssa of the current /repo; unsat = discharged.",
   note=COMMON_NOTE + "Assumed: bufio.Reader.ReadByte/UnreadByte stubs (octets delivered in order whatever the segmentation); the definitional axioms of the k-th-output-octet function outv.",
   design="3.C01", technique="contract-based deductive verification: loop invariant as simulation of a spec transducer, WP over go/ssa, z3/cvc5"),
}

def main():
    hooks_commits = []
    try:
        out = subprocess.check_output(["git", "-C", "/repo", "log", "--format=%H %s"], text=True)
        for l in out.splitlines():
            h, s = l.split(" ", 1)
            if s.startswith("verif:"):
                hooks_commits.append(h)
    except Exception:
        pass
    env = "GOFLAGS=-mod=mod GOPROXY=off GOSUMDB=off GOTOOLCHAIN=local"
    man = {
      "version": 1,
      "setup_cmd": "cd /verif/govc && %s go build -o /verif/bin/govc ." % env,
      "hooks": {
        "guard": "verif",
        "enable": "go build tag `verif` (govc loads /repo with -tags=verif); the tag only adds the comment-only contract file /repo/contracts_verif.go, no code",
        "baseline_off_cmd": "cd /repo && %s go test -vet=off -count=1 ./..." % env,
        "source_commits": hooks_commits,
        "add_only": True,
      },
      "engines": [{"name": "govc", "path": "/verif/govc", "serves_properties": sorted(CLAIMS),
                   "kind_free_text": "verification-condition generator over go/ssa for contracts kept as //@ comments in /repo/contracts_verif.go; obligations discharged by z3 5.1.0 / z3 4.8.12 / cvc5"}],
      "checks": [],
      "notes": "See DESIGN.md. Known findings: known_findings.json. Self-test (must-fail mutants, must-pass refactorings): bin/govc selftest.",
      "not_applicable": [],
    }
    for p in ALL:
        if p in CLAIMS:
            c = CLAIMS[p]
            man["checks"].append({
              "property_id": p,
              "quick_cmd": "bin/govc check %s -tier quick" % p,
              "thorough_cmd": "bin/govc check %s -tier thorough" % p,
              "evidence_file": "/verif/evidence/%s.json" % p,
              "replay_cmd_template": "cat {path}",
              "engine": "govc",
              "level_claimed": {"category": "proof", "text": c["text"], "design_ref": c["design"]},
              "level_note": c["note"],
              "technique": c["technique"],
            })
        else:
            man["not_applicable"].append({"property_id": p, "reason": NA.get(p, "no contract for this property has been discharged yet in this revision of /verif; it is not claimed (see DESIGN.md section 3 for the planned obligations)")})
    json.dump(man, open(os.path.join(ROOT, "MANIFEST.json"), "w"), indent=1)
    print("claimed:", sorted(CLAIMS), "not applicable:", [x["property_id"] for x in man["not_applicable"]])

NA = {}

if __name__ == "__main__":
    main()
