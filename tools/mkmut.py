#!/usr/bin/env python3
"""Regenerates /verif/selftest/*.patch and corpus.json from the table below.

Each entry is a textual edit of the CURRENT /repo HEAD (old text must occur exactly once).
--validate additionally checks, in a scratch copy outside /repo and /verif, that every
mutant compiles and passes the unedited test suite (so the suite cannot see it).
"""
import json, os, subprocess, sys, tempfile, shutil

ROOT = os.path.dirname(os.path.dirname(os.path.abspath(__file__)))
ST = os.path.join(ROOT, "selftest")
ENV = dict(os.environ, GOFLAGS="-mod=mod", GOPROXY="off", GOSUMDB="off", GOTOOLCHAIN="local")

M = []
def mut(id, file, old, new, props, expect="", kind="mutant", note=""):
    M.append(dict(id=id, file=file, old=old, new=new, props=props, expect=expect, kind=kind, note=note))

# ---------------------------------------------------------------- data.go
mut("M25", "data.go", """			if c == '\\r' {
				r.state = stateCR
				break
			}
			r.state = stateData
		case stateDot:""", """			r.state = stateData
		case stateDot:""", ["C01", "C02"], "[BOL.cr]", note="CR at begin-of-line goes to stateData")
mut("M12", "data.go", """			if err == io.EOF {
				err = io.ErrUnexpectedEOF
			}
			break""", """			break""", ["C07"], "eof-only-at-end", note="network EOF reported as io.EOF")
mut("M11", "data.go", "if int64(len(b)) > r.n {", "if int64(len(b)) > r.n+1 {", ["C06"], "", note="truncation test off by one: backend can read N+1 octets")
mut("M61", "data.go", """			if c == '\\n' {
				r.state = stateBeginLine
				break
			}
			if c != '\\r' {""", """			if c == '\\n' {
				r.state = stateBeginLine
				break
			}
			if c == '.' {
				r.state = stateDot
				continue
			}
			if c != '\\r' {""", ["C01", "C02"], "[CR.dot]", note="'.' after a bare CR treated as line-initial dot")
mut("P1", "data.go", """			// Not part of .\\r\\n.
			// Consume leading dot and emit saved \\r.
			r.r.UnreadByte()
			c = '\\r'
			r.state = stateData""", """			r.state = stateData""", ["C01"], "[DOTCR", note="regression of fix e0b59b6 (.CR x loses the CR)")
mut("P2", "data.go", """			if c != '\\r' {
				r.state = stateData
			}""", """			r.state = stateData""", ["C01", "C02"], "[CR.cr]", note="regression of fix 13ef944 (CR CR LF . CR LF not seen as end)")
# ---------------------------------------------------------------- lengthlimit_reader.go
mut("M06", "lengthlimit_reader.go", """		if chr == '\\n' {
			r.curLineLength = 0
			lineStart = i + 1
		}""", """		if chr == '\\n' {
			r.curLineLength = -1
			lineStart = i + 1
		}""", ["C19"], "lineLimitReader", note="counter reset to -1: lines one octet too long accepted")
mut("M62", "lengthlimit_reader.go", "		if r.curLineLength > r.LineLimit {\n			// Nothing of this line", "		if r.curLineLength >= r.LineLimit {\n			// Nothing of this line", ["C19"], "lineLimitReader", note="a line exactly at the limit refused")
# ---------------------------------------------------------------- conn.go
mut("M01", "conn.go", "	r.limited = false\n	io.Copy(ioutil.Discard, r) // Make sure all the data has been consumed\n	c.writeResponse(code, enhancedCode, msg)", "	io.Copy(ioutil.Discard, r) // Make sure all the data has been consumed\n	c.writeResponse(code, enhancedCode, msg)", ["C02"], "handleData/post:resync", note="handleData: limit not lifted before draining")
mut("M63", "conn.go", "	code, enhancedCode, msg := dataErrorToStatus(c.Session().Data(r))\n	r.limited = false\n	io.Copy(ioutil.Discard, r) // Make sure all the data has been consumed", "	code, enhancedCode, msg := dataErrorToStatus(c.Session().Data(r))\n	if code == 250 {\n		r.limited = false\n		io.Copy(ioutil.Discard, r) // Make sure all the data has been consumed\n	}", ["C02"], "handleData/post:resync", note="handleData: message drained only when the backend accepted it")
mut("M09", "conn.go", "	if !c.fromReceived || len(c.recipients) == 0 {\n		c.writeResponse(502, EnhancedCode{5, 5, 1}, \"Missing RCPT TO command.\")\n		return\n	}\n\n	// We have recipients, go to accept data", "	if !c.fromReceived {\n		c.writeResponse(502, EnhancedCode{5, 5, 1}, \"Missing RCPT TO command.\")\n		return\n	}\n\n	// We have recipients, go to accept data", ["C03"], "Session.Data", note="handleData: guard only !fromReceived")
mut("M02", "conn.go", "if c.server.MaxRecipients > 0 && len(c.recipients) >= c.server.MaxRecipients {", "if c.server.MaxRecipients > 0 && len(c.recipients) > c.server.MaxRecipients {", ["C03"], "below-recipient-limit", note="recipient limit off by one")
mut("M04b", "conn.go", """	c.helo = domain

	// RFC 5321: "An EHLO command MAY be issued by a client later in the session"
	if c.session != nil {
		// RFC 5321: "... the SMTP server MUST clear all buffers
		// and reset the state exactly as if a RSET command has been issued."
		c.reset()
	} else {
		sess, err := c.server.Backend.NewSession(c)
		if err != nil {
			c.helo = ""
			c.writeError(451, EnhancedCode{4, 0, 0}, err)
			return
		}

		c.setSession(sess)
	}
""", """	// RFC 5321: "An EHLO command MAY be issued by a client later in the session"
	if c.session != nil {
		// RFC 5321: "... the SMTP server MUST clear all buffers
		// and reset the state exactly as if a RSET command has been issued."
		c.reset()
	} else {
		sess, err := c.server.Backend.NewSession(c)
		if err != nil {
			c.writeError(451, EnhancedCode{4, 0, 0}, err)
			return
		}

		c.setSession(sess)
	}
	c.helo = domain
""", ["C03"], "NewSession", note="helo set only after session creation: backend cannot see the greeting name")
mut("M38", "conn.go", "	c.fromReceived = false\n	c.recipients = nil\n}", "	c.fromReceived = false\n}", ["C03"], "reset/post:tx-discarded", note="reset keeps the recipients")
mut("M26", "conn.go", """		c.writeResponse(502, EnhancedCode{5, 5, 1}, "MAIL not allowed during message transfer")
		return
	}""", """		c.writeResponse(502, EnhancedCode{5, 5, 1}, "MAIL not allowed during message transfer")
	}""", ["C03", "C04"], "handleMail", note="MAIL during BDAT: 502 written but processing continues")
mut("M64", "conn.go", """	c.writeResponse(250, EnhancedCode{2, 0, 0}, fmt.Sprintf("Roger, accepting mail from <%v>", replyText(from)))
	c.fromReceived = true""", """	c.fromReceived = true
	if err := c.Session().Mail(from, opts); err != nil {
		c.writeError(451, EnhancedCode{4, 0, 0}, err)
		return
	}
	c.writeResponse(250, EnhancedCode{2, 0, 0}, fmt.Sprintf("Roger, accepting mail from <%v>", replyText(from)))""", ["C03"], "handleMail", note="second Mail callback and fromReceived set before the backend accepted")
mut("M08", "conn.go", "	c.helo = \"\"\n	c.didAuth = false\n	c.reset()", "	c.helo = \"\"\n	c.reset()", ["C09", "C10"], "upgrade-forgets-plaintext-state", note="STARTTLS keeps the authentication state")
mut("M41", "conn.go", """	if _, isTLS := c.TLSConnectionState(); isTLS {
		c.writeResponse(502, EnhancedCode{5, 5, 1}, "Already running in TLS")
		return
	}

	if c.server.TLSConfig == nil {""", """	if c.server.TLSConfig == nil {""", ["C10"], "not-already-tls", note="STARTTLS accepted when TLS is already active")
mut("M65", "conn.go", "	c.conn = tlsConn\n	c.init()\n", "	c.init()\n	c.conn = tlsConn\n", ["C10"], "upgrade-new-limiter-over-tls", note="init() before the conn store: the new reader still reads the plaintext socket")
mut("M13", "conn.go", """	if !c.authAllowed() {
		c.writeResponse(523, EnhancedCode{5, 7, 10}, "TLS is required")
		return
	}

	mechanism""", """	mechanism""", ["C09"], "only-when-allowed", note="AUTH accepted on insecure connections")
mut("M40", "conn.go", """	response := ir
	for {""", """	response := ir
	c.didAuth = true
	for {""", ["C09"], "handleAuth", note="didAuth set before the exchange completes")
mut("M03", "conn.go", """		if err == errPanic {
			c.Close()
		}

		c.reset()
		c.lineLimitReader.LineLimit = c.server.MaxLineLength
		return""", """		if err == errPanic {
			c.Close()
		}

		c.lineLimitReader.LineLimit = c.server.MaxLineLength
		return""", ["C03"], "handleBdat", note="failed chunk does not end the transaction")
mut("M27", "conn.go", "	io.Copy(ioutil.Discard, io.LimitReader(c.text.R, int64(size)))\n	c.lineLimitReader.LineLimit = c.server.MaxLineLength\n}", "	io.Copy(ioutil.Discard, io.LimitReader(c.text.R, int64(size)-1))\n	c.lineLimitReader.LineLimit = c.server.MaxLineLength\n}", ["C05"], "chunk-consumed", note="refused chunk: one octet too few discarded")
mut("M24", "conn.go", "	if last {\n		c.lineLimitReader.LineLimit = c.server.MaxLineLength\n\n		c.bdatPipe.Close()", "	if last || size == 0 {\n		c.lineLimitReader.LineLimit = c.server.MaxLineLength\n\n		c.bdatPipe.Close()", ["C05", "C07"], "clean-eof-only-after-complete-last-chunk", note="pipe closed cleanly on an empty non-LAST chunk")
mut("M39", "conn.go", "	c.bdatStatus = nil\n	c.bytesReceived = 0\n", "	c.bdatStatus = nil\n", ["C06", "C03"], "reset/post:tx-discarded", note="reset keeps bytesReceived")
mut("M22", "conn.go", """	if c.session != nil {
		c.session.Logout()
		c.session = nil
	}

	return c.conn.Close()""", """	c.session = nil

	return c.conn.Close()""", ["C08"], "Close/post:logout-on-close", note="Close drops the session without Logout")
mut("M67", "conn.go", """	if c.session != nil {
		c.session.Logout()
		c.session = nil
	}
	c.locker.Unlock()
	c.helo = \"\"""", """	c.session = nil
	c.locker.Unlock()
	c.helo = \"\"""", ["C08", "C10"], "upgrade-logs-out", note="STARTTLS drops the session without Logout")
mut("M34", "conn.go", "	c.writeResponse(code, ec, msg)\n\n	c.errCount++\n	if c.errCount > errThreshold {", "	c.writeResponse(code, ec, msg)\n\n	if code != 501 {\n		c.errCount++\n	}\n	if c.errCount > errThreshold {", ["C19"], "protocolError/post:counted", note="parse errors (501) are not counted")
mut("M35", "server.go", """				c.writeResponse(500, EnhancedCode{5, 4, 0}, "Too long line, closing connection")
				return nil""", """				c.writeResponse(500, EnhancedCode{5, 4, 0}, "Too long line, closing connection")
				continue""", ["C19", "C08"], "handleConn", note="command loop continues after a too-long line")
mut("M68", "server.go", """			if c.isClosed() {
				// The connection was given up while handling an earlier command
				// (QUIT, too many errors, panic): commands already buffered
				// behind it must not be executed.
				return nil
			}

""", "", ["C08"], "handleConn/call-pre", note="regression of fix 28d8a25: commands executed after Close")
mut("M69", "conn.go", "		c.lineLimitReader.LineLimit = c.server.MaxLineLength\n\n		c.writeResponse(250, EnhancedCode{2, 0, 0}, \"Continue\")", "		c.writeResponse(250, EnhancedCode{2, 0, 0}, \"Continue\")", ["C19", "C05"], "line-limit-restored", note="regression of fix 460cf06")
mut("M70", "conn.go", """	if err == nil && n != int64(size) {
		// The connection ended in the middle of the chunk.
		err = io.ErrUnexpectedEOF
	}
""", "	_ = n\n", ["C07", "C05"], "clean-eof-only-after-complete-last-chunk", note="regression of fix b331c3f")
mut("M71", "conn.go", "		c.writeResponse(502, EnhancedCode{5, 5, 1}, \"Missing RCPT TO command.\")\n		c.discardChunk(size)\n		return", "		c.writeResponse(502, EnhancedCode{5, 5, 1}, \"Missing RCPT TO command.\")\n		return", ["C05"], "handleBdat/post:framing", note="regression of fix c40235b")
mut("M72", "conn.go", "		err := c.Session().Data(r)\n		r.limited = false\n		io.Copy(ioutil.Discard, r) // Make sure all the data has been consumed\n		for _, rcpt := range c.recipients {", "		err := c.Session().Data(r)\n		io.Copy(ioutil.Discard, r) // Make sure all the data has been consumed\n		for _, rcpt := range c.recipients {", ["C02"], "handleDataLMTP/post:resync", note="regression of fix 41a5def (fallback path)")
mut("M73", "conn.go", "			status.fillRemaining(lmtpSession.LMTPData(r, status))\n			r.limited = false\n", "			status.fillRemaining(lmtpSession.LMTPData(r, status))\n", ["C02"], "drained", note="regression of fix 41a5def (goroutine path)")
mut("M21c", "conn.go", "				code, enchCode, msg := dataErrorToStatus(<-c.bdatStatus.status[i])\n				c.writeResponse(code, enchCode, \"<\"+replyText(rcpt)+\"> \"+msg)", "				code, enchCode, msg := dataErrorToStatus(<-c.bdatStatus.status[len(c.recipients)-1-i])\n				c.writeResponse(code, enchCode, \"<\"+replyText(rcpt)+\"> \"+msg)", ["C13"], "", note="BDAT LMTP emission loop receives in reverse order")
mut("P9r", "conn.go", """			if ch < 0x10 {
				// hexchar is "+" followed by exactly two hex digits
				out.WriteRune('0')
			}
""", "", ["C14"], "hexchar-is-plus-and-two-digits", note="regression of fix 2797894 (one-digit hexchar)")
mut("P10r", "conn.go", """		case ch >= '!' && ch <= '~' && ch != '+' && ch != '=' && ch != '\\\\':
			// printable non-space US-ASCII except '+', '=' and '\\'
			out.WriteRune(ch)
		case ch <= '\\x7F':""", """		case ch >= '!' && ch <= '~' && ch != '+' && ch != '=':
			out.WriteRune(ch)
		case ch <= '\\x7F':""", ["C14"], "other-ascii-escaped", note="regression of fix 6091a1d (unitext backslash)")
mut("M54", "conn.go", """func encodeXtext(raw string) string {
	var out strings.Builder
	out.Grow(len(raw))

	for _, ch := range raw {
		switch {
		case ch >= '!' && ch <= '~' && ch != '+' && ch != '=':""", """func encodeXtext(raw string) string {
	var out strings.Builder
	out.Grow(len(raw))

	for _, ch := range raw {
		switch {
		case ch >= ' ' && ch <= '~' && ch != '+' && ch != '=':""", ["C14", "C15"], "encodeXtext", note="xtext: SP emitted raw (breaks the parameter token)")
mut("M46", "conn.go", "		case ch <= '\\x7F':\n			// other ASCII: CTLs, space and specials", "		case ch < '\\x7F':\n			// other ASCII: CTLs, space and specials", ["C14"], "encodeUTF8AddrUnitext", note="unitext: DEL emitted raw")
mut("M07b", "conn.go", "	if _, isTLS := c.TLSConnectionState(); isTLS && c.server.EnableREQUIRETLS {", "	if c.server.EnableREQUIRETLS {", ["C12"], "requiretls-only-under-tls", note="REQUIRETLS advertised regardless of TLS")
mut("M74", "conn.go", "			if !c.server.EnableREQUIRETLS {\n				c.writeResponse(504, EnhancedCode{5, 5, 4}, \"REQUIRETLS is not implemented\")\n				return\n			}\n", "", ["C12"], "only-enabled-extensions", note="REQUIRETLS parameter accepted although the extension is disabled")
mut("M75", "conn.go", "		caps = append(caps, fmt.Sprintf(\"LIMITS RCPTMAX=%v\", c.server.MaxRecipients))", "		caps = append(caps, fmt.Sprintf(\"LIMITS RCPTMAX=%v\", c.server.MaxMessageBytes))", ["C12"], "configured-values-advertised", note="RCPTMAX advertised with the wrong configuration value")
mut("M36", "conn.go", "		c.writeResponse(452, EnhancedCode{4, 5, 3}, fmt.Sprintf(\"Maximum limit of %v recipients reached\", c.server.MaxRecipients))", "		c.writeResponse(452, EnhancedCode{5, 5, 3}, fmt.Sprintf(\"Maximum limit of %v recipients reached\", c.server.MaxRecipients))", ["C04"], "enhanced-code-of-the-same-class", note="452 sent with enhanced code 5.5.3")
mut("M19", "conn.go", "			enhCode = EnhancedCode{cat, 0, 0}", "			enhCode = EnhancedCode{5, 0, 0}", ["C17"], "unset-enhanced-code-defaults-to-class", note="unset enhanced code always 5.0.0")
mut("M43", "conn.go", "		c.writeResponse(code, enhCode, err.Error())\n	}\n}", "		c.writeResponse(451, enhCode, err.Error())\n	}\n}", ["C17"], "generic-code", note="writeError ignores the call site's generic code")
mut("M79", "conn.go", "			dataResult <- err\n			r.CloseWithError(err)", "			c.dataResult <- err\n			r.CloseWithError(err)", ["C20"], "own:Conn.dataResult", note="regression of fix e638caa: delivery goroutine re-reads Conn.dataResult")
mut("M80", "server.go", "	s.locker.Lock()\n	s.conns[c] = struct{}{}\n	s.locker.Unlock()", "	s.conns[c] = struct{}{}", ["C20"], "own:Server.conns", note="connection registered without the server lock")
mut("M81", "conn.go", "func (c *Conn) isClosed() bool {\n	c.locker.Lock()\n	defer c.locker.Unlock()\n	return c.closed\n}", "func (c *Conn) isClosed() bool {\n	return c.closed\n}", ["C20"], "own:Conn.closed", note="closed flag read without the connection lock")
mut("M20", "server.go", "				if max := 1 * time.Second; tempDelay > max {\n					tempDelay = max\n				}\n", "", ["C20"], "Serve", note="accept back-off cap removed (overflow after ~60 doublings)")
mut("M82", "server.go", "	for conn := range s.conns {\n		conn.Close()\n	}\n	s.locker.Unlock()\n\n	return err", "	if err != nil {\n		s.locker.Unlock()\n		return err\n	}\n	for conn := range s.conns {\n		conn.Close()\n	}\n	s.locker.Unlock()\n\n	return err", ["C20"], "first-close-closes-every-registered-connection", note="Server.Close leaves connections open when a listener fails to close")
mut("M83", "server.go", "				time.Sleep(tempDelay)\n				continue\n			}\n			return err", "				time.Sleep(tempDelay)\n				if tempDelay >= time.Second {\n					return err\n				}\n				continue\n			}\n			return err", ["C20"], "temporary-accept-errors-never-end-serving", note="Serve gives up after the back-off reaches its cap")
mut("M84", "conn.go", "	c.locker.Lock()\n	defer c.locker.Unlock()\n\n	c.closed = true\n", "	c.closed = true\n\n	c.locker.Lock()\n	defer c.locker.Unlock()\n", ["C20"], "own:Conn.closed", note="closed flag written before taking the connection lock")
mut("M93", "conn.go", "			case DSNReturnFull, DSNReturnHeaders:\n				// This space is intentionally left blank\n			default:\n				c.writeResponse(501, EnhancedCode{5, 5, 4}, \"Unknown RET value\")\n				return\n			}", "			case DSNReturnFull, DSNReturnHeaders:\n				// This space is intentionally left blank\n			}", ["C11"], "ret", note="unknown RET value accepted")
mut("M94", "conn.go", "			if _, ok := seen[val]; ok {\n				return errors.New(\"Malformed NOTIFY parameter value\")\n			}\n", "", ["C11"], "checkNotifySet/", note="duplicate NOTIFY keyword accepted")
mut("M95", "conn.go", "	if _, ok := seen[DSNNotifyNever]; ok && len(seen) > 1 {", "	if _, ok := seen[DSNNotifyNever]; ok && len(seen) > 2 {", ["C11"], "never-stands-alone", note="NOTIFY=NEVER,x accepted")
mut("M98", "conn.go", "			size, err := strconv.ParseUint(value, 10, 32)\n			if err != nil {\n				c.writeResponse(501, EnhancedCode{5, 5, 4}, \"Unable to parse SIZE as an integer\")", "			size, err := strconv.ParseUint(value, 0, 32)\n			if err != nil {\n				c.writeResponse(501, EnhancedCode{5, 5, 4}, \"Unable to parse SIZE as an integer\")", ["C11"], "size", note="SIZE parsed with base prefix detection (0x10 accepted)")
mut("M99", "conn.go", "		if err == nil && !isPrintableASCII(aAddr) {\n			err = errors.New(\"illegal address:\" + aAddr)\n		}\n", "", ["C11"], "typed-address", note="rfc822 ORCPT with non-printable decoded octets accepted")
mut("M85", "conn.go", "					c.handlePanic(err, status)\n\n					dataResult <- errPanic", "					c.handlePanic(err, c.bdatStatus)\n\n					dataResult <- errPanic", ["C13", "C20"], "", note="BDAT recover handler fills whatever collector the connection holds now")
mut("M86", "conn.go", "	if status != nil {\n		status.fillRemaining(errPanic)\n	}\n\n	stack := debug.Stack()", "	stack := debug.Stack()", ["C13"], "every-recipient-of-the-given-collector-is-answered", note="handlePanic no longer answers the recipients (command loop waits for ever)")
mut("P3r", "data.go", "		if r.n <= 0 && !r.skipEndMarker() {", "		if r.n <= 0 {", ["C06"], "limit-transparent", note="regression of fix f7f3907 (exactly N octets refused)")
mut("M87", "data.go", "	case stateDot:\n		rest = \"\\r\\n\"", "	case stateDot:\n		rest = \"\\n\"", ["C02", "C06"], "skipEndMarker", note="at the size limit <CRLF>.<LF> is taken for the end marker")
mut("M88", "data.go", "	r.r.Discard(len(rest))\n	r.state = stateEOF", "	r.state = stateEOF", ["C02", "C06"], "skipEndMarker", note="end marker recognised at the size limit but left in the stream")
mut("M89", "data.go", "	case stateEOF:\n		return true\n	default:", "	default:", ["C06", "C02"], "", note="a read after the end of an exactly-N message reports too large")
mut("P11r", "conn.go", "		if enhCode == NoEnhancedCode {\n			c.text.PrintfLine(\"%d-%v\", code, text[i])\n		} else {\n			c.text.PrintfLine(\"%d-%v.%v.%v %v\", code, enhCode[0], enhCode[1], enhCode[2], text[i])\n		}", "		c.text.PrintfLine(\"%d-%v\", code, text[i])", ["C17"], "enhanced-code-on-every-line", note="regression of the multi-line enhanced code fix")
mut("M103", "conn.go", "			c.text.PrintfLine(\"%d-%v.%v.%v %v\", code, enhCode[0], enhCode[1], enhCode[2], text[i])", "			c.text.PrintfLine(\"%d-%v.%v.%v %v\", code, enhCode[0], enhCode[1], enhCode[1], text[i])", ["C17"], "continuation-lines-carry-the-same-enhanced-code", note="continuation lines repeat the subject digit as detail")
mut("P8r", "conn.go", "fmt.Sprintf(\"Roger, accepting mail from <%v>\", replyText(from))", "fmt.Sprintf(\"Roger, accepting mail from <%v>\", from)", ["C04"], "reply-text-well-formed", note="regression of the echo fix at one site (reverse-path quoted raw)")
mut("P8r2", "conn.go", "	args := []string{\"Hello \" + replyText(domain)}", "	args := []string{\"Hello \" + domain}", ["C04"], "reply-text-well-formed", note="regression of the echo fix in the EHLO reply")
mut("M105", "conn.go", "				if c := b[i]; (c < ' ' && c != '\\t') || c == 0x7f {\n					b[i] = '?'", "				if c := b[i]; c < ' ' && c != '\\t' {\n					b[i] = '?'", ["C04"], "replyText/", note="replyText lets DEL through after the first bad octet")
mut("M106", "conn.go", "			b := []byte(s)\n			for ; i < len(b); i++ {", "			b := []byte(s)\n			for i++; i < len(b); i++ {", ["C04"], "replyText/", note="replyText skips the first bad octet")
mut("P15r", "parse.go", "			case '(', ')', '<', '[', ']', ':', ';', '@', '\\\\', ',', '\"':\n				return \"\", fmt.Errorf(\"malformed domain\")", "			case '(', ')', '[', ']', ';', '\\\\', ',', '\"':\n				return \"\", fmt.Errorf(\"malformed domain\")", ["C11"], "bounded:path-parser-vs-rfc5321", note="regression of fix 77e9e9f: '<', '@' and ':' accepted in a domain again")
mut("M108", "parse.go", "	} else if localPart == \"\" {\n		return \"\", fmt.Errorf(\"local-part is empty\")\n	}", "	}", ["C11"], "bounded:path-parser-vs-rfc5321", note="empty local part accepted")
mut("M109", "server.go", "		if lerr := l.Close(); lerr != nil && err == nil {\n			err = lerr\n		}\n	}\n\n	for conn := range s.conns {", "		if lerr := l.Close(); lerr != nil {\n			err = lerr\n			break\n		}\n	}\n\n	for conn := range s.conns {", ["C20"], "(*Server).Close/", note="Server.Close stops closing listeners at the first failure")
mut("P16r", "conn.go", "			if value != \"\" {\n				c.writeResponse(501, EnhancedCode{5, 5, 4}, \"SMTPUTF8 takes no value\")\n				return\n			}\n", "", ["C11"], "flagvalues", note="regression of fix d9528c8: SMTPUTF8=x accepted")
mut("P16r2", "parse.go", "			if m[1] == \"\" {\n				return nil, fmt.Errorf(\"failed to parse arg string: %q\", arg)\n			}\n", "", ["C11"], "parseArgs", note="regression of fix d9528c8: empty parameter value accepted")
mut("P17r", "conn.go", "	c.lineLimitReader.LineLimit = 0\n	c.lineLimitReader.curLineLength = 0\n\n	chunk := io.LimitReader", "	c.lineLimitReader.LineLimit = 0\n\n	chunk := io.LimitReader", ["C05", "C19"], "no-line-limit-on-chunk-octets", note="regression of fix 4981975: what was counted of the chunk is not forgotten")
mut("P18r", "lengthlimit_reader.go", "			r.rest = append(append([]byte{}, b[lineStart:n]...), r.rest...)\n			return lineStart, nil", "			_ = lineStart\n			return 0, ErrTooLongLine", ["C05", "C19"], "", note="regression of fix 4981975: the Read that notices the excess fails and drops what it read")
mut("P19r", "conn.go", "	line, err := c.text.R.ReadString('\\n')\n	if err != nil {\n		return \"\", err\n	}\n", "	line, err := c.text.R.ReadString('\\n')\n	if err != nil && line == \"\" {\n		return \"\", err\n	}\n	if !strings.HasSuffix(line, \"\\n\") {\n		line += \"\\n\"\n	}\n", ["C19"], "bounded:line-limit-end-to-end", note="regression of the partial-line fix: the head of an over-long line runs as a command")
mut("P20r", "conn.go", "	if c.server.MaxLineLength > 0 && len(line) > c.server.MaxLineLength {\n		// Read ahead while the limit was lifted for a BDAT chunk.\n		return \"\", ErrTooLongLine\n	}\n", "", ["C19"], "a-line-handed-to-the-command-loop-is-within-the-limit", note="regression: lines read ahead behind a chunk escape the limit")
mut("P21r", "conn.go", "	c.locker.Lock()\n	if c.session != nil {\n		c.session.Logout()\n		c.session = nil\n	}\n	c.locker.Unlock()\n	c.helo = \"\"", "	if session := c.Session(); session != nil {\n		session.Logout()\n		c.setSession(nil)\n	}\n	c.helo = \"\"", ["C08", "C20"], "holds:Conn.locker@Session.Logout", note="regression: STARTTLS logs out outside the critical section")
mut("M112", "conn.go", "func (c *Conn) reset() {\n	c.locker.Lock()\n	defer c.locker.Unlock()\n\n	if c.bdatPipe != nil {", "func (c *Conn) reset() {\n	if c.bdatPipe != nil {", ["C20"], "(*Conn).reset/holds", note="reset no longer takes the connection lock")
mut("M113", "server.go", "	s.locker.Lock()\n	s.listeners = append(s.listeners, l)\n	s.locker.Unlock()\n\n	var tempDelay", "	var tempDelay", ["C20"], "the-listener-stays-registered", note="Serve no longer registers its listener: Close/Shutdown cannot stop it (operator mutant found by tools/automut.py)")
mut("M114", "conn.go", "		c.writeResponse(221, EnhancedCode{2, 0, 0}, \"Bye\")\n		c.Close()\n", "		c.writeResponse(221, EnhancedCode{2, 0, 0}, \"Bye\")\n", ["C08"], "quit-is-answered-221-and-ends-the-connection", note="QUIT is answered but the connection is not given up (operator mutant found by tools/automut.py)")
mut("M115", "conn.go", "			c.writeResponse(421, EnhancedCode{4, 0, 0}, \"Internal server error\")\n			c.Close()\n", "			c.writeResponse(421, EnhancedCode{4, 0, 0}, \"Internal server error\")\n", ["C08"], "a-panic-while-handling-a-command-is-answered-421-and-the-connection-given-up", note="a panic in a command handler no longer closes the connection (operator mutant; the panicking case of recover handlers was not verified before)")
mut("M116", "conn.go", "				if err := recover(); err != nil {\n					status.fillRemaining(&SMTPError{\n						Code:         421,\n						EnhancedCode: EnhancedCode{4, 0, 0},\n						Message:      \"Internal server error\",\n					})\n", "				if err := recover(); err != nil {\n", ["C13", "C20"], "a-recovered-panic-still-answers-every-recipient", note="LMTP DATA recover handler no longer answers the recipients: the command loop waits for ever")
mut("M117", "conn.go", "	if status != nil {\n		status.fillRemaining(errPanic)\n	}\n\n	stack := debug.Stack()", "	stack := debug.Stack()", ["C13"], "every-recipient-of-the-given-collector-is-answered", note="handlePanic no longer answers the recipients")
mut("M118", "conn.go", "c.bytesReceived+int64(size) > c.server.MaxMessageBytes {", "c.bytesReceived+int64(size) >= c.server.MaxMessageBytes {", ["C06"], "a-chunk-is-refused-for-size-only-when-it-takes-the-message-over-the-limit", note="a BDAT message of exactly the limit is refused (operator mutant found by tools/automut.py)")
mut("M119", "conn.go", "			if c.server.MaxMessageBytes > 0 && int64(size) > c.server.MaxMessageBytes {", "			if c.server.MaxMessageBytes > 0 && int64(size) >= c.server.MaxMessageBytes {", ["C06"], "a-declared-size-is-refused-only-when-it-exceeds-the-limit", note="MAIL SIZE= exactly the limit is refused (operator mutant found by tools/automut.py)")
mut("M120", "conn.go", "		if err == errPanic {\n			c.Close()\n		}\n\n		c.reset()\n		c.lineLimitReader.LineLimit = c.server.MaxLineLength\n		return", "		c.reset()\n		c.lineLimitReader.LineLimit = c.server.MaxLineLength\n		return", ["C08"], "after-a-backend-panic-the-connection-is-given-up", note="a backend panic in the middle of a BDAT chunk no longer closes the connection (operator mutant found by tools/automut.py)")
mut("M121", "conn.go", "	if c.bdatStatus == nil && c.server.LMTP {", "	if c.bdatStatus == nil || c.server.LMTP {", ["C13"], "a-collector-is-created-for-a-new-transfer-only", note="every LMTP chunk replaces the status collector the delivery goroutine reports to (operator mutant found by tools/automut.py)")
mut("M122", "conn.go", "		if err := c.conn.SetReadDeadline(time.Now().Add(c.server.ReadTimeout)); err != nil {", "		if err := c.conn.SetReadDeadline(time.Now().Add(c.server.ReadTimeout)); err == nil {", ["C19", "C04"], "a-line-returned-was-taken-from-the-stream", note="with a read timeout configured an empty line is made up instead of reading one (operator mutant)")
mut("M123", "conn.go", "	if c.server.MaxLineLength > 0 && len(line) > c.server.MaxLineLength {", "	if c.server.MaxLineLength >= 0 && len(line) > c.server.MaxLineLength {", ["C19"], "a-line-that-was-read-is-refused-for-its-length-only-beyond-a-configured-limit", note="without a configured limit every line is refused as too long (operator mutant)")
mut("M124r", "conn.go", "				if c := b[i]; (c < ' ' && c != '\\t') || c == 0x7f {\n					b[i] = '?'", "				if c := b[i]; (c <= ' ' && c != '\\t') || c == 0x7f {\n					b[i] = '?'", ["C04"], "replyText/", note="blanks behind the first control character are replaced too (operator mutant; not property-breaking by itself, pins the contract)")
mut("M133", "conn.go", "			case 0x01 <= char && char <= 0x09 ||", "			case 0x01 <= char && char < 0x09 ||", ["C11"], "utf8-addr-xtext-hexpoints-vs-rfc6533", note="a well-formed \\x{09} is refused (operator mutant in a function behind a stub; bounded stand-in)")
mut("M134", "conn.go", "			case 0x1000 <= char && char <= 0xD7FF:", "			case 0x1000 <= char || char <= 0xD7FF:", ["C11"], "utf8-addr-xtext-hexpoints-vs-rfc6533", note="surrogate hexpoints are accepted (operator mutant in a function behind a stub; bounded stand-in)")
mut("M135", "conn.go", "	c.writeResponse(421, EnhancedCode{4, 4, 5}, \"Too busy. Try again later.\")\n	c.Close()", "	c.writeResponse(421, EnhancedCode{4, 4, 5}, \"Too busy. Try again later.\")", ["C08"], "a-rejected-connection-is-answered-421-and-given-up", note="Reject answers 421 but keeps the connection (operator mutant)")
mut("P22r", "lengthlimit_reader.go", "		if err != nil {\n			r.err = err\n			return n, err\n		}", "		if err != nil {\n			return n, err\n		}", ["C02", "C19"], "a-failed-read-is-remembered", note="regression of fix dd5ea9d: a failed read of the connection is forgotten (message octets run as commands after a timeout)")
mut("P22br", "lengthlimit_reader.go", "		if r.err != nil {\n			return 0, r.err\n		}\n", "", ["C02", "C19"], "after-a-failed-read-nothing-more-is-read-from-the-connection", note="regression of fix dd5ea9d: the remembered read error is not reported again")
# ---------------------------------------------------------------- client.go
mut("M124", "client.go", "		_, _, err := d.c.readResponse(250)\n		d.c.rcpts = nil\n		if err != nil {\n			return err\n		}", "		_, _, err := d.c.readResponse(250)\n		d.c.rcpts = nil\n		if err == nil {\n			return err\n		}", ["C16", "C17"], "close-returns-the-servers-verdict-on-the-message", note="the server's refusal of the message is swallowed by Close (operator mutant found by tools/automut.py)")
mut("M125", "client.go", "		if err = c.Rcpt(addr, nil); err != nil {\n			return err\n		}\n	}\n	w, err := c.Data()", "		if err = c.Rcpt(addr, nil); err == nil {\n			return err\n		}\n	}\n	w, err := c.Data()", ["C16"], "success-means-the-message-was-written-and-its-writer-closed", note="SendMail reports success after the first accepted recipient without sending anything (operator mutant)")
mut("M126", "client.go", "	if err := c.SendMail(from, to, r); err != nil {\n		return err\n	}\n\n	return c.Quit()", "	if err := c.SendMail(from, to, r); err == nil {\n		return err\n	}\n\n	return c.Quit()", ["C16", "C17"], "a-refused-message-is-reported", note="package-level SendMail swallows the refusal and reports QUIT's outcome (operator mutant)")
mut("M127", "client.go", "		if err = c.Auth(a); err != nil {\n			return err\n		}\n	}\n\n	if err := c.SendMail", "		if err = c.Auth(a); err == nil {\n			return err\n		}\n	}\n\n	if err := c.SendMail", ["C16", "C17"], "sendMail/post:", note="package-level SendMail reports success right after AUTH (operator mutant)")
mut("M128", "client.go", "	if _, _, err := c.cmd(250, \"RSET\"); err != nil {\n		return err\n	}", "	if _, _, err := c.cmd(250, \"RSET\"); err == nil {\n		return err\n	}", ["C18"], "a-reset-transaction-leaves-no-recipients-behind", note="Reset returns before forgetting the recipients, and swallows a refusal (operator mutant)")
mut("M129", "client.go", "	c.helloError = nil\n\n	c.rcpts = nil\n	return nil", "	c.helloError = nil\n\n	return nil", ["C18"], "a-reset-transaction-leaves-no-recipients-behind", note="Reset keeps the LMTP recipients of the aborted transaction (operator mutant)")
mut("M130", "client.go", "	_, _, err := c.cmd(221, \"QUIT\")\n	if err != nil {\n		return err\n	}", "	_, _, err := c.cmd(221, \"QUIT\")\n	if err == nil {\n		return err\n	}", ["C17"], "a-refused-quit-is-reported", note="Quit swallows the server's refusal (operator mutant)")
mut("M131", "client.go", "	if err != nil {\n		c.greetError = err\n		c.text.Close()\n	}", "	if err != nil {\n		c.text.Close()\n	}", ["C15", "C17"], "a-refused-greeting-is-an-error", note="a refused greeting is reported as success (operator mutant)")
mut("M136", "client.go", "	c := NewClient(conn)\n	c.lmtp = true\n	return c", "	c := NewClient(conn)\n	return c", ["C18"], "an-lmtp-client-speaks-lmtp", note="NewClientLMTP returns a plain SMTP client (operator mutant; the suite does not notice)")
mut("M137", "data.go", "	return err.Code/100 == 4", "	return err.Code/100 != 4", ["C17"], "the-class-of-the-code-decides", note="Temporary() inverted (operator mutant)")
mut("M138", "client.go", "		resp64 = make([]byte, encoding.EncodedLen(len(resp)))\n		encoding.Encode(resp64, resp)\n		code, msg64, err = c.cmd(0, string(resp64))", "		resp64 = make([]byte, encoding.EncodedLen(len(resp)))\n		code, msg64, err = c.cmd(0, string(resp64))", ["C09"], "auth-exchange-client-against-server", note="the client sends NUL octets instead of its mechanism's response (call-deletion mutant found by tools/automut.py --calls; bounded stand-in)")
mut("M111", "client.go", "	if _, ok := c.ext[\"SIZE\"]; ok && opts != nil && opts.Size != 0 {", "	if _, ok := c.ext[\"SIZE\"]; ok && opts != nil && opts.Size > 1 {", ["C14"], "every-requested-and-offered-option-is-rendered", note="SIZE=1 is not rendered")
mut("M104", "client.go", "		if resp == nil {\n			break\n		}\n		resp64 = make([]byte, encoding.EncodedLen(len(resp)))", "		if len(resp) == 0 {\n			break\n		}\n		resp64 = make([]byte, encoding.EncodedLen(len(resp)))", ["C09"], "success-means-the-server-said-235", note="client stops the AUTH exchange on an empty (non-nil) response and reports success")
mut("M30", "client.go", "	if d.closed {\n		return fmt.Errorf(\"smtp: data writer closed twice\")\n	}\n	d.closed = true\n", "	if d.closed {\n		return fmt.Errorf(\"smtp: data writer closed twice\")\n	}\n", ["C16"], "always-closed-afterwards", note="dataCloser never marked closed (also regression of fix 755bba6)")
mut("P13r", "client.go", "		// The transaction is over, its recipients must not be reported\n		// again for the next one on this connection.\n		d.c.rcpts = nil\n", "", ["C18"], "recipients-forgotten", note="regression of fix beb567b (LMTP recipients carried over)")
mut("P13br", "client.go", "					} else if refused == nil {\n						// Nobody is told about per-recipient statuses:\n						// report the first refusal through Close.\n						refused = smtpErr\n					}", "					}", ["C18"], "refusal-remembered", note="regression of fix bcd2888 (refusal lost without callback)")
mut("M45", "client.go", "			expectedResponses--\n		}\n		// The transaction is over", "			expectedResponses--\n			if d.statusCb == nil {\n				break\n			}\n		}\n		// The transaction is over", ["C18"], "exactly-one-reply-per-accepted-recipient", note="LMTP Close without callback reads one reply only")
mut("M17", "client.go", "			sb.WriteString(\" REQUIRETLS\")\n		} else {\n			return errors.New(\"smtp: server does not support REQUIRETLS\")\n		}", "			sb.WriteString(\" REQUIRETLS\")\n		}", ["C15"], "requiretls-not-silently-dropped", note="REQUIRETLS silently dropped when not offered")
mut("M52", "client.go", "	if _, ok := c.ext[\"SIZE\"]; ok && opts != nil && opts.Size != 0 {", "	if opts != nil && opts.Size != 0 {", ["C15"], "only-negotiated-parameters", note="SIZE rendered without the extension check")
mut("M51", "client.go", "	if _, ok := c.ext[\"RRVS\"]; ok && opts != nil && !opts.RequireRecipientValidSince.IsZero() {", "	if opts != nil && !opts.RequireRecipientValidSince.IsZero() {", ["C15"], "only-negotiated-parameters", note="RRVS rendered without the extension check")
mut("M53", "client.go", "			if err := checkNotifySet(opts.Notify); err != nil {\n				return errors.New(\"smtp: Malformed NOTIFY parameter value\")\n			}\n", "", ["C15"], "Rcpt", note="NOTIFY values rendered unchecked (CR/LF can reach the line)")
mut("M49", "client.go", "			if !isPrintableASCII(opts.EnvelopeID) {\n				return errors.New(\"smtp: Malformed ENVID parameter value\")\n			}\n", "", ["C14"], "envid-within-the-xtext-domain", note="printable check on ENVID deleted (not line-breaking: xtext still escapes)")
mut("M76", "client.go", "	if err := validateLine(from); err != nil {\n		return err\n	}\n	if err := c.hello(); err != nil {\n		return err\n	}\n\n	var sb strings.Builder\n	// A high enough power of 2 than 510+14+26+11+9+9+39+500", "	if err := c.hello(); err != nil {\n		return err\n	}\n	if err := validateLine(from); err != nil {\n		return err\n	}\n\n	var sb strings.Builder\n	// A high enough power of 2 than 510+14+26+11+9+9+39+500", ["C15"], "nothing-written-for-bad-line", note="Mail: validateLine after hello(): EHLO written although the call fails locally")
mut("M77", "client.go", "	if ok, _ := c.Extension(\"STARTTLS\"); !ok {\n		return errors.New(\"smtp: server doesn't support STARTTLS\")\n	}\n", "", ["C10"], "starttls-only-if-offered", note="initStartTLS continues without the extension")
# ---------------------------------------------------------------- refactorings (must pass)
mut("R01", "data.go", "func (r *dataReader) Read(b []byte) (n int, err error) {", "func (r *dataReader) Read(b []byte) (n int, err error) {\n	_ = 0", ["C01", "C02", "C06", "C07"], kind="refactor", note="no-op statement inserted")
mut("R02", "data.go", """		if r.n <= 0 && !r.skipEndMarker() {
			return 0, ErrDataTooLarge
		}
		if int64(len(b)) > r.n {
			b = b[0:r.n]
		}""", """		budget := r.n
		if budget <= 0 && !r.skipEndMarker() {
			return 0, ErrDataTooLarge
		}
		if int64(len(b)) > budget {
			b = b[0:budget]
		}""", ["C01", "C06"], kind="refactor", note="r.n hoisted into a local")
mut("R04", "conn.go", "	if c.helo == \"\" {\n		c.writeResponse(502, EnhancedCode{5, 5, 1}, \"Please introduce yourself first.\")\n		return\n	}\n	if c.bdatPipe != nil {\n		c.writeResponse(502, EnhancedCode{5, 5, 1}, \"MAIL not allowed during message transfer\")\n		return\n	}", "	if c.bdatPipe != nil {\n		c.writeResponse(502, EnhancedCode{5, 5, 1}, \"MAIL not allowed during message transfer\")\n		return\n	}\n	if c.helo == \"\" {\n		c.writeResponse(502, EnhancedCode{5, 5, 1}, \"Please introduce yourself first.\")\n		return\n	}", ["C03", "C04"], kind="refactor", note="the two independent guards of handleMail swapped")
mut("R05", "conn.go", "	args := strings.Fields(arg)\n	if len(args) == 0 {\n		c.writeResponse(501, EnhancedCode{5, 5, 4}, \"Missing chunk size argument\")", "	srv := c.server\n	_ = srv\n	args := strings.Fields(arg)\n	if len(args) == 0 {\n		c.writeResponse(501, EnhancedCode{5, 5, 4}, \"Missing chunk size argument\")", ["C05", "C07"], kind="refactor", note="c.server hoisted into a local in handleBdat")
mut("R06", "conn.go", "	if !c.fromReceived {\n		c.writeResponse(502, EnhancedCode{5, 5, 1}, \"Missing MAIL FROM command.\")\n		return\n	}\n	if c.bdatPipe != nil {\n		c.writeResponse(502, EnhancedCode{5, 5, 1}, \"RCPT not allowed during message transfer\")\n		return\n	}", "	if c.bdatPipe != nil {\n		c.writeResponse(502, EnhancedCode{5, 5, 1}, \"RCPT not allowed during message transfer\")\n		return\n	}\n	if !c.fromReceived {\n		c.writeResponse(502, EnhancedCode{5, 5, 1}, \"Missing MAIL FROM command.\")\n		return\n	}", ["C03", "C11"], kind="refactor", note="the two independent guards of handleRcpt swapped")
mut("R07", "server.go", "	var err error\n	s.locker.Lock()\n	for _, l := range s.listeners {\n		if lerr := l.Close(); lerr != nil && err == nil {\n			err = lerr\n		}\n	}\n\n	for conn := range s.conns {", "	var err error\n	s.locker.Lock()\n	ls := s.listeners\n	for _, l := range ls {\n		if lerr := l.Close(); lerr != nil && err == nil {\n			err = lerr\n		}\n	}\n\n	for conn := range s.conns {", ["C20"], kind="refactor", note="listeners hoisted into a local under the lock")
mut("R08", "client.go", "	if d.closed {\n		return fmt.Errorf(\"smtp: data writer closed twice\")\n	}", "	if wasClosed := d.closed; wasClosed {\n		return fmt.Errorf(\"smtp: data writer closed twice\")\n	}", ["C16", "C18"], kind="refactor", note="closed flag read into a local first")
mut("R09", "conn.go", "	c.closed = true\n\n	if c.bdatPipe != nil {\n		c.bdatPipe.CloseWithError(ErrDataReset)\n		c.bdatPipe = nil\n	}\n\n	if c.session != nil {\n		c.session.Logout()\n		c.session = nil\n	}\n\n	return c.conn.Close()\n}", "	c.closed = true\n	c.logout()\n\n	return c.conn.Close()\n}\n\n// logout aborts a transfer in progress and releases the session. The caller holds c.locker.\nfunc (c *Conn) logout() {\n	if c.bdatPipe != nil {\n		c.bdatPipe.CloseWithError(ErrDataReset)\n		c.bdatPipe = nil\n	}\n\n	if c.session != nil {\n		c.session.Logout()\n		c.session = nil\n	}\n}", ["C08", "C20", "C07"], kind="refactor", note="the body of Close extracted into a helper that runs under the same lock")
mut("R10", "client.go", "	if opts != nil && opts.RequireTLS {\n		if _, ok := c.ext[\"REQUIRETLS\"]; ok {\n			sb.WriteString(\" REQUIRETLS\")\n		} else {\n			return errors.New(\"smtp: server does not support REQUIRETLS\")\n		}\n	}\n	if opts != nil && opts.UTF8 {\n		if _, ok := c.ext[\"SMTPUTF8\"]; ok {\n			sb.WriteString(\" SMTPUTF8\")\n		} else {\n			return errors.New(\"smtp: server does not support SMTPUTF8\")\n		}\n	}", "	if opts != nil && opts.UTF8 {\n		if _, ok := c.ext[\"SMTPUTF8\"]; ok {\n			sb.WriteString(\" SMTPUTF8\")\n		} else {\n			return errors.New(\"smtp: server does not support SMTPUTF8\")\n		}\n	}\n	if opts != nil && opts.RequireTLS {\n		if _, ok := c.ext[\"REQUIRETLS\"]; ok {\n			sb.WriteString(\" REQUIRETLS\")\n		} else {\n			return errors.New(\"smtp: server does not support REQUIRETLS\")\n		}\n	}", ["C14", "C15"], kind="refactor", note="the two independent flag blocks of Client.Mail swapped (parameter order on the wire changes, nothing else)")
mut("R12", "data.go", "	switch r.state {\n	case stateBeginLine:\n		rest = \".\\r\\n\"\n	case stateDot:\n		rest = \"\\r\\n\"\n	case stateDotCR:\n		rest = \"\\n\"\n	case stateEOF:\n		return true\n	default:\n		return false\n	}", "	if r.state == stateEOF {\n		return true\n	} else if r.state == stateBeginLine {\n		rest = \".\\r\\n\"\n	} else if r.state == stateDot {\n		rest = \"\\r\\n\"\n	} else if r.state == stateDotCR {\n		rest = \"\\n\"\n	} else {\n		return false\n	}", ["C01", "C02", "C06"], kind="refactor", note="switch of skipEndMarker written as an if chain")
mut("R13", "conn.go", "	if c.server.MaxMessageBytes != 0 && c.bytesReceived+int64(size) > c.server.MaxMessageBytes {", "	chunkSize := int64(size)\n	if c.server.MaxMessageBytes != 0 && c.bytesReceived+chunkSize > c.server.MaxMessageBytes {", ["C05", "C06"], kind="refactor", note="int64(size) hoisted into a local in handleBdat")
mut("R03", "lengthlimit_reader.go", """	for i, chr := range b[:n] {
		if chr == '\\n' {""", """	buf := b[:n]
	for i, chr := range buf {
		if chr == '\\n' {""", ["C19"], kind="refactor", note="slice hoisted into a local")


def run(cmd, cwd=None, check=True):
    return subprocess.run(cmd, cwd=cwd, env=ENV, check=check, stdout=subprocess.PIPE, stderr=subprocess.STDOUT, text=True)

def main():
    validate = "--validate" in sys.argv
    only = [a for a in sys.argv[1:] if not a.startswith("--")]
    os.makedirs(ST, exist_ok=True)
    corpus = []
    tmp = tempfile.mkdtemp(prefix="mkmut")
    try:
        for m in M:
            if only and m["id"] not in only:
                # keep existing entry
                corpus.append(dict(id=m["id"], patch=m["id"] + ".patch", props=m["props"], expect=m["expect"], kind=m["kind"], note=m["note"]))
                continue
            dst = os.path.join(tmp, "repo")
            if os.path.exists(dst):
                shutil.rmtree(dst)
            shutil.copytree("/repo", dst, symlinks=True)
            p = os.path.join(dst, m["file"])
            s = open(p).read()
            n = s.count(m["old"])
            if n != 1:
                print("ERROR %s: old text occurs %d times in %s" % (m["id"], n, m["file"]))
                sys.exit(1)
            open(p, "w").write(s.replace(m["old"], m["new"]))
            diff = run(["git", "diff", "--", m["file"]], cwd=dst).stdout
            open(os.path.join(ST, m["id"] + ".patch"), "w").write(diff)
            if validate:
                r = run(["go", "test", "-vet=off", "-count=1", "-timeout", "120s", "./..."], cwd=dst, check=False)
                ok = r.returncode == 0
                print("%-6s %s  %s" % (m["id"], "compiles+passes suite" if ok else "SUITE FAILS/BUILD BROKEN", m["note"]))
                if not ok:
                    print(r.stdout[-1500:])
            corpus.append(dict(id=m["id"], patch=m["id"] + ".patch", props=m["props"], expect=m["expect"], kind=m["kind"], note=m["note"]))
        # the seeded changes produced by independent sub-agents (/verif/seeded/<id>/) are part of the corpus
        import glob
        for mp in sorted(glob.glob(os.path.join(os.path.dirname(ST), "seeded", "*", "meta.json"))):
            meta = json.load(open(mp))
            if meta.get("invalidated"):
                continue
            corpus.append(dict(id=meta["id"], patch="../seeded/%s/patch.diff" % meta["id"], props=[meta["breaks_property"]], expect="", kind="mutant",
                               note="seeded by an independent agent: " + meta.get("needs_to_manifest", "").split("\n")[0][:160]))
        json.dump(corpus, open(os.path.join(ST, "corpus.json"), "w"), indent=1)
        print("wrote", len(corpus), "entries")
    finally:
        shutil.rmtree(tmp, ignore_errors=True)

if __name__ == "__main__":
    main()
