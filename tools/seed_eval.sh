#!/bin/bash
# usage: seed_eval.sh <seed-id> <property> <dir with patch.diff seeded_demo_test.go notes.txt> [extra props...]
# Confirms a seeded change (compiles, suite passes, demo fails with / passes without), stores it under
# /verif/seeded/<id>/ and runs the property check(s) against a scratch copy with the change applied.
set -u
export GOFLAGS=-mod=mod GOPROXY=off GOSUMDB=off GOTOOLCHAIN=local
ID=$1; PROP=$2; SRC=$3; shift 3; EXTRA="$@"
DST=/verif/seeded/$ID
mkdir -p $DST
cp $SRC/patch.diff $DST/patch.diff
cp $SRC/seeded_demo_test.go $DST/seeded_demo_test.go
cp $SRC/notes.txt $DST/notes.txt 2>/dev/null
SCR=$(mktemp -d /tmp/seedeval.XXXX)
cp -r /repo $SCR/repo
cd $SCR/repo
if ! git apply --whitespace=nowarn $DST/patch.diff; then echo "PATCH DOES NOT APPLY"; rm -rf $SCR; exit 1; fi
BUILD=$(go build ./... 2>&1 && echo BUILD-OK)
SUITE=$(go test -vet=off -count=1 -timeout 180s ./... 2>&1 | tail -3)
cp $DST/seeded_demo_test.go .
DEMO_WITH=$(go test -vet=off -count=1 -timeout 120s -run 'TestSeededDemo$' . 2>&1 | tail -4)
git apply -R --whitespace=nowarn $DST/patch.diff
DEMO_WITHOUT=$(go test -vet=off -count=1 -timeout 120s -run 'TestSeededDemo$' . 2>&1 | tail -2)
git apply --whitespace=nowarn $DST/patch.diff
rm -f seeded_demo_test.go
echo "== build: $(echo "$BUILD" | tail -1)"
echo "== suite with change: $SUITE"
echo "== demo with change: $DEMO_WITH"
echo "== demo without change: $DEMO_WITHOUT"
RES=""
for P in $PROP $EXTRA; do
  OUT=$(/verif/bin/govc check $P -repo $SCR/repo -no-evidence 2>&1 | grep -E "^VIOLATION|failed obligation|^C[0-9]+ |GENERATOR" | sed "s#$SCR/repo#<scratch>#g" | head -12)
  echo "== check $P:"; echo "$OUT"
  RES="$RES
--- check $P ---
$OUT"
done
python3 - "$ID" "$PROP" "$BUILD" "$SUITE" "$DEMO_WITH" "$DEMO_WITHOUT" "$RES" <<'PY'
import json,sys,os
id,prop,build,suite,dw,dwo,res=sys.argv[1:8]
notes=""
p='/verif/seeded/%s/notes.txt'%id
if os.path.exists(p): notes=open(p).read()
meta={"id":id,"breaks_property":prop,"needs_to_manifest":notes.strip(),
 "confirmed":{"build":build.strip().splitlines()[-1] if build.strip() else "", "suite_with_change":suite.strip(), "demo_with_change":dw.strip(), "demo_without_change":dwo.strip()},
 "what_was_run":"tools/seed_eval.sh: scratch copy of /repo, git apply patch.diff, go build, go test ./... (suite), demo test with and without the change, then bin/govc check <prop> -repo <scratch>",
 "check_result":res.strip()}
json.dump(meta,open('/verif/seeded/%s/meta.json'%id,'w'),indent=1)
PY
rm -rf $SCR
