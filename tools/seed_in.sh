#!/bin/bash
# usage: seed_in.sh Cxx /tmp/wt_dir [extra props]  -> picks the next free S-Cxx-n, evaluates, removes the worktree
P=$1; WT=$2; shift 2
n=1; while [ -d /verif/seeded/S-$P-$n ]; do n=$((n+1)); done
ID=S-$P-$n
/verif/tools/seed_eval.sh $ID $P $WT/_out "$@" 2>&1 | tee /root/seedlog_$ID.txt
git -C /repo worktree remove --force $WT
echo "stored as $ID"
