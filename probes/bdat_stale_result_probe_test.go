package smtp_test

import (
	"io"
	"net"
	"sync"
	"testing"
	"time"

	"github.com/emersion/go-smtp"
)

type rcBe struct {
	mu      sync.Mutex
	release chan struct{}
	n       int
}
type rcS struct{ be *rcBe }

func (b *rcBe) NewSession(c *smtp.Conn) (smtp.Session, error) { return &rcS{b}, nil }
func (s *rcS) Reset()                                      {}
func (s *rcS) Logout() error                               { return nil }
func (s *rcS) Mail(from string, o *smtp.MailOptions) error { return nil }
func (s *rcS) Rcpt(to string, o *smtp.RcptOptions) error   { return nil }
func (s *rcS) Data(r io.Reader) error {
	s.be.mu.Lock()
	s.be.n++
	first := s.be.n == 1
	s.be.mu.Unlock()
	_, err := io.Copy(io.Discard, r)
	if first {
		<-s.be.release // the aborted delivery finishes late
	}
	return err
}

// The delivery goroutine of an aborted BDAT transfer finishes after the next transfer has started:
// it then reads Conn fields that the command loop has rewritten in the meantime.
func TestProbeBdatGoroutineRace(t *testing.T) {
	be := &rcBe{release: make(chan struct{})}
	s := smtp.NewServer(be)
	s.Domain = "localhost"
	l, _ := net.Listen("tcp", "127.0.0.1:0")
	go s.Serve(l)
	defer s.Close()
	c, _ := net.Dial("tcp", l.Addr().String())
	rd := make([]byte, 4096)
	send := func(x string) string {
		c.Write([]byte(x))
		c.SetReadDeadline(time.Now().Add(300 * time.Millisecond))
		n, _ := c.Read(rd)
		return string(rd[:n])
	}
	send("EHLO a\r\n")
	send("MAIL FROM:<a@b>\r\nRCPT TO:<c@d>\r\n")
	send("BDAT 3\r\nabc")
	send("RSET\r\n") // aborts transfer 1; its Data call is still blocked
	send("MAIL FROM:<a@b>\r\nRCPT TO:<c@d>\r\n")
	send("BDAT 3\r\nxyz") // transfer 2: new pipe, new result channel
	close(be.release)     // now transfer 1's goroutine finishes and touches c.dataResult
	time.Sleep(100 * time.Millisecond)
	reply := send("BDAT 0 LAST\r\n")
	send("QUIT\r\n")
	if len(reply) < 3 || reply[:3] != "250" {
		t.Fatalf("message 2 was accepted by the backend but its final reply is %q (the outcome of the aborted transfer 1)", reply)
	}
}
