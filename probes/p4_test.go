package smtp_test

import (
	"io"
	"net"
	"strings"
	"testing"
	"time"

	"github.com/emersion/go-smtp"
)

type p4be struct {
	mails []string
	lmtp  bool
}
type p4s struct{ be *p4be }
type p4sl struct{ p4s }

func (b *p4be) NewSession(c *smtp.Conn) (smtp.Session, error) {
	if b.lmtp {
		return &p4sl{p4s{b}}, nil
	}
	return &p4s{b}, nil
}
func (s *p4s) Reset()        {}
func (s *p4s) Logout() error { return nil }
func (s *p4s) Mail(from string, o *smtp.MailOptions) error {
	s.be.mails = append(s.be.mails, from)
	return nil
}
func (s *p4s) Rcpt(to string, o *smtp.RcptOptions) error { return nil }
func (s *p4s) Data(r io.Reader) error                    { _, err := io.Copy(io.Discard, r); return err }
func (s *p4sl) LMTPData(r io.Reader, st smtp.StatusCollector) error {
	_, err := io.Copy(io.Discard, r)
	return err
}

func probeP4(t *testing.T, perRcpt bool) {
	be := &p4be{lmtp: perRcpt}
	s := smtp.NewServer(be)
	s.Domain = "localhost"
	s.LMTP = true
	s.MaxMessageBytes = 3
	l, _ := net.Listen("tcp", "127.0.0.1:0")
	go s.Serve(l)
	defer s.Close()
	c, _ := net.Dial("tcp", l.Addr().String())
	c.Write([]byte("LHLO a\r\nMAIL FROM:<a@b>\r\nRCPT TO:<c@d>\r\nDATA\r\nabcdefgh\r\nMAIL FROM:<bait@x>\r\n.\r\nQUIT\r\n"))
	c.SetReadDeadline(time.Now().Add(2 * time.Second))
	out, _ := io.ReadAll(c)
	time.Sleep(50 * time.Millisecond)
	for _, m := range be.mails {
		if strings.Contains(m, "bait") {
			t.Fatalf("message octets executed as a command: Mail(%q)\nreplies: %q", m, out)
		}
	}
}

func TestProbeP4Fallback(t *testing.T) { probeP4(t, false) }
func TestProbeP4PerRcpt(t *testing.T)  { probeP4(t, true) }
