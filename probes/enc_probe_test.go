package smtp

import "testing"

func TestProbeP9(t *testing.T) {
	for _, s := range []string{"\x01 a+", "\x0f", "\t", "a\nb"} {
		enc := encodeXtext(s)
		dec, err := decodeXtext(enc)
		if err != nil || dec != s {
			t.Errorf("xtext %q -> %q -> %q, %v", s, enc, dec, err)
		}
	}
}

func TestProbeP10(t *testing.T) {
	for _, s := range []string{"a\\b", "\\", "x\\y@é"} {
		for name, f := range map[string]func(string) string{"xtext": encodeUTF8AddrXtext, "unitext": encodeUTF8AddrUnitext} {
			enc := f(s)
			dec, err := decodeUTF8AddrXtext(enc)
			if err != nil || dec != s {
				t.Errorf("utf-8-addr-%s %q -> %q -> %q, %v", name, s, enc, dec, err)
			}
		}
	}
}
