package smtp_test

import (
	"io"
	"net"
	"strings"
	"testing"
	"time"

	"github.com/emersion/go-smtp"
)

type p7be struct{ news, mails int }
type p7s struct{ be *p7be }

func (b *p7be) NewSession(c *smtp.Conn) (smtp.Session, error) { b.news++; return &p7s{b}, nil }
func (s *p7s) Reset()                                       {}
func (s *p7s) Logout() error                                { return nil }
func (s *p7s) Mail(from string, o *smtp.MailOptions) error   { s.be.mails++; return nil }
func (s *p7s) Rcpt(to string, o *smtp.RcptOptions) error     { return nil }
func (s *p7s) Data(r io.Reader) error                       { io.Copy(io.Discard, r); return nil }

func TestProbeP7(t *testing.T) {
	be := &p7be{}
	s := smtp.NewServer(be)
	s.Domain = "localhost"
	l, _ := net.Listen("tcp", "127.0.0.1:0")
	go s.Serve(l)
	defer s.Close()
	c, _ := net.Dial("tcp", l.Addr().String())
	c.Write([]byte("EHLO a\r\nQUIT\r\nEHLO b\r\nMAIL FROM:<x@y>\r\n"))
	c.SetReadDeadline(time.Now().Add(2 * time.Second))
	out, _ := io.ReadAll(c)
	t.Logf("replies: %q", out)
	time.Sleep(100 * time.Millisecond)
	if be.news != 1 || be.mails != 0 || strings.Count(string(out), "\r\n250 ") > 1 {
		t.Fatalf("commands executed after QUIT: NewSession=%d Mail=%d", be.news, be.mails)
	}
}
