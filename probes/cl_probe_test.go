package smtp_test

import (
	"bufio"
	"io"
	"net"
	"strings"
	"testing"
	"time"

	"github.com/emersion/go-smtp"
)

// scripted fake server: for each received line matching a prefix, send the given reply
func fakeServer(t *testing.T, conn net.Conn, lmtp bool, dataReplies [][]string, log *[]string) {
	br := bufio.NewReader(conn)
	w := func(s string) { conn.Write([]byte(s + "\r\n")) }
	w("220 hi")
	tx := 0
	for {
		line, err := br.ReadString('\n')
		if err != nil {
			return
		}
		line = strings.TrimRight(line, "\r\n")
		*log = append(*log, line)
		switch {
		case strings.HasPrefix(line, "EHLO"), strings.HasPrefix(line, "LHLO"):
			w("250 ok")
		case strings.HasPrefix(line, "MAIL"), strings.HasPrefix(line, "RCPT"), strings.HasPrefix(line, "RSET"):
			w("250 ok")
		case line == "DATA":
			w("354 go")
			for {
				l, err := br.ReadString('\n')
				if err != nil {
					return
				}
				if l == ".\r\n" {
					break
				}
			}
			for _, r := range dataReplies[tx] {
				w(r)
			}
			tx++
		case line == "QUIT":
			w("221 bye")
			return
		default:
			w("501 Bad command: " + line)
		}
	}
}

// P12: a second Close after a rejected message must be an error, not a second exchange
func TestProbeP12(t *testing.T) {
	cc, sc := net.Pipe()
	var log []string
	go fakeServer(t, sc, false, [][]string{{"554 5.7.1 rejected"}}, &log)
	c := smtp.NewClient(cc)
	c.Mail("a@b", nil)
	c.Rcpt("c@d", nil)
	w, _ := c.Data()
	io.WriteString(w, "hello\r\n")
	err1 := w.Close()
	done := make(chan error, 1)
	go func() { done <- w.Close() }()
	var err2 error
	select {
	case err2 = <-done:
	case <-time.After(time.Second):
		t.Fatalf("second Close hangs (first: %v); server saw %q", err1, log)
	}
	time.Sleep(50 * time.Millisecond)
	for _, l := range log {
		if l == "." {
			t.Fatalf("second Close talked to the server again (stray %q); err1=%v err2=%v log=%q", l, err1, err2, log)
		}
	}
	if err1 == nil || err2 == nil {
		t.Fatalf("err1=%v err2=%v", err1, err2)
	}
}

// P13: second LMTP transaction reports its own recipients and returns
func TestProbeP13(t *testing.T) {
	cc, sc := net.Pipe()
	var log []string
	go fakeServer(t, sc, true, [][]string{{"250 2.0.0 <r1> ok"}, {"250 2.0.0 <r2> ok"}}, &log)
	c := smtp.NewClientLMTP(cc)
	for i, rc := range []string{"r1@x", "r2@x"} {
		c.Mail("a@b", nil)
		c.Rcpt(rc, nil)
		var got []string
		w, err := c.LMTPData(func(rcpt string, st *smtp.SMTPError) { got = append(got, rcpt) })
		if err != nil {
			t.Fatal(err)
		}
		io.WriteString(w, "hello\r\n")
		done := make(chan error, 1)
		go func() { done <- w.Close() }()
		select {
		case <-done:
		case <-time.After(time.Second):
			t.Fatalf("transaction %d: Close hangs waiting for replies the server will not send; callbacks so far %q", i+1, got)
		}
		if len(got) != 1 || got[0] != rc {
			t.Fatalf("transaction %d: callbacks %q, want [%q]", i+1, got, rc)
		}
	}
}

// P13b: without a callback a per-recipient refusal must surface through Close
func TestProbeP13b(t *testing.T) {
	cc, sc := net.Pipe()
	var log []string
	go fakeServer(t, sc, true, [][]string{{"550 5.1.1 <r1> no such user"}}, &log)
	c := smtp.NewClientLMTP(cc)
	c.Mail("a@b", nil)
	c.Rcpt("r1@x", nil)
	w, _ := c.Data()
	io.WriteString(w, "hello\r\n")
	if err := w.Close(); err == nil {
		t.Fatalf("the only recipient was refused after DATA but Close returned nil")
	}
}
