package smtp_test

import (
	"bufio"
	"io"
	"io/ioutil"
	"net"
	"strings"
	"sync"
	"testing"
	"time"

	"github.com/emersion/go-smtp"
)

type toBackend struct {
	mu    sync.Mutex
	mails []string
}
type toSession struct{ b *toBackend }

func (b *toBackend) NewSession(c *smtp.Conn) (smtp.Session, error) { return &toSession{b}, nil }
func (s *toSession) Reset()                                       {}
func (s *toSession) Logout() error                                { return nil }
func (s *toSession) Mail(from string, o *smtp.MailOptions) error {
	s.b.mu.Lock()
	s.b.mails = append(s.b.mails, from)
	s.b.mu.Unlock()
	return nil
}
func (s *toSession) Rcpt(to string, o *smtp.RcptOptions) error { return nil }
func (s *toSession) Data(r io.Reader) error {
	_, err := io.Copy(ioutil.Discard, r)
	return err
}

func TestProbeTimeoutInData(t *testing.T) {
	be := &toBackend{}
	s := smtp.NewServer(be)
	s.Domain = "x"
	s.ReadTimeout = 300 * time.Millisecond
	l, err := net.Listen("tcp", "127.0.0.1:0")
	if err != nil {
		t.Fatal(err)
	}
	go s.Serve(l)
	defer s.Close()
	c, err := net.Dial("tcp", l.Addr().String())
	if err != nil {
		t.Fatal(err)
	}
	defer c.Close()
	br := bufio.NewReader(c)
	rd := func() string {
		c.SetReadDeadline(time.Now().Add(2 * time.Second))
		l, _ := br.ReadString('\n')
		return strings.TrimSpace(l)
	}
	rd()
	io.WriteString(c, "HELO a\r\n")
	rd()
	io.WriteString(c, "MAIL FROM:<alice@a>\r\n")
	rd()
	io.WriteString(c, "RCPT TO:<bob@b>\r\n")
	rd()
	io.WriteString(c, "DATA\r\n")
	t.Log(rd())
	io.WriteString(c, "Subject: hi\r\n\r\nfirst line\r\n")
	time.Sleep(600 * time.Millisecond) // slow client: the server's read deadline passes
	t.Log("reply after the stall:", rd())
	// the client, unaware, goes on with its message
	io.WriteString(c, "MAIL FROM:<mallory@m>\r\n")
	t.Log("reply to a line of the message body:", rd())
	io.WriteString(c, ".\r\n")
	t.Log(rd())
	be.mu.Lock()
	defer be.mu.Unlock()
	for _, m := range be.mails {
		if m == "mallory@m" {
			t.Errorf("a line of the message body was executed as a command: backend Mail(%q)", m)
		}
	}
}
