package smtp_test

// Probe for the C06 limit-transparency clause: a message of exactly MaxMessageBytes octets is
// accepted as if no limit were set; one octet more is refused with 552; whatever the segmentation.

import (
	"bufio"
	"io"
	"net"
	"strings"
	"testing"
	"time"

	"github.com/emersion/go-smtp"
)

type p3be struct{ got []string }
type p3s struct{ be *p3be }

func (b *p3be) NewSession(c *smtp.Conn) (smtp.Session, error)  { return &p3s{b}, nil }
func (s *p3s) Reset()                                        {}
func (s *p3s) Logout() error                                 { return nil }
func (s *p3s) Mail(from string, o *smtp.MailOptions) error   { return nil }
func (s *p3s) Rcpt(to string, o *smtp.RcptOptions) error     { return nil }
func (s *p3s) Data(r io.Reader) error {
	b, err := io.ReadAll(r)
	if err != nil {
		return err
	}
	s.be.got = append(s.be.got, string(b))
	return nil
}

// send writes the pieces with pauses in between and returns the reply to the message and to NOOP.
func p3run(t *testing.T, limit int64, pieces []string) (string, string, []string) {
	be := &p3be{}
	s := smtp.NewServer(be)
	s.Domain = "localhost"
	s.MaxMessageBytes = limit
	l, _ := net.Listen("tcp", "127.0.0.1:0")
	go s.Serve(l)
	defer s.Close()
	c, _ := net.Dial("tcp", l.Addr().String())
	defer c.Close()
	c.SetDeadline(time.Now().Add(5 * time.Second))
	br := bufio.NewReader(c)
	line := func() string { l, _ := br.ReadString('\n'); return l }
	line()
	c.Write([]byte("HELO a\r\n"))
	line()
	c.Write([]byte("MAIL FROM:<a@b>\r\n"))
	line()
	c.Write([]byte("RCPT TO:<c@d>\r\n"))
	line()
	c.Write([]byte("DATA\r\n"))
	line()
	for _, p := range pieces {
		c.Write([]byte(p))
		time.Sleep(20 * time.Millisecond)
	}
	r1 := line()
	c.Write([]byte("NOOP\r\n"))
	r2 := line()
	return r1, r2, be.got
}

func TestProbeP3(t *testing.T) {
	cases := []struct {
		name   string
		limit  int64
		pieces []string
		want   string // delivered body, "" = refused
	}{
		{"exactly-N", 5, []string{"abc\r\n.\r\n"}, "abc\r\n"},
		{"exactly-N-marker-split", 5, []string{"abc\r\n", ".", "\r", "\n"}, "abc\r\n"},
		{"N-plus-one", 5, []string{"abcd\r\n.\r\n"}, ""},
		{"exactly-N-with-stuffed-dot", 6, []string{"..bc\r\n.\r\n"}, ".bc\r\n"},
		{"N-then-stuffed-dot-line", 5, []string{"abc\r\n..\r\n.\r\n"}, ""},
		{"N-then-dot-cr-x", 5, []string{"abc\r\n.\rx\r\n.\r\n"}, ""},
		{"below-N", 50, []string{"abc\r\n.\r\n"}, "abc\r\n"},
		{"one-octet-reads", 5, []string{"a", "b", "c", "\r", "\n", ".", "\r", "\n"}, "abc\r\n"},
	}
	for _, tc := range cases {
		r1, r2, got := p3run(t, tc.limit, tc.pieces)
		if tc.want != "" {
			if !strings.HasPrefix(r1, "250 ") || len(got) != 1 || got[0] != tc.want {
				t.Errorf("%s: reply %q, delivered %q, want 250 and %q", tc.name, r1, got, tc.want)
			}
		} else {
			if !strings.HasPrefix(r1, "552 ") || len(got) != 0 {
				t.Errorf("%s: reply %q, delivered %q, want 552 and nothing", tc.name, r1, got)
			}
		}
		if !strings.HasPrefix(r2, "250 ") {
			t.Errorf("%s: the command after the message got %q, want 250 (resynchronised)", tc.name, r2)
		}
	}
}
