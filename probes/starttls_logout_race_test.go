package smtp_test

// Probe for C08/C20: STARTTLS logs the plaintext session out. If Server.Close closes the connection
// while that Logout is still running, the session must not be logged out a second time.

import (
	"bufio"
	"crypto/ecdsa"
	"crypto/elliptic"
	"crypto/rand"
	"crypto/tls"
	"crypto/x509"
	"crypto/x509/pkix"
	"io"
	"math/big"
	"net"
	"sync/atomic"
	"testing"
	"time"

	"github.com/emersion/go-smtp"
)

type slrBE struct {
	entered chan struct{}
	release chan struct{}
	logouts int32
}
type slrSess struct{ be *slrBE }

func (b *slrBE) NewSession(*smtp.Conn) (smtp.Session, error) { return &slrSess{b}, nil }
func (s *slrSess) Reset()                                  {}
func (s *slrSess) Mail(string, *smtp.MailOptions) error     { return nil }
func (s *slrSess) Rcpt(string, *smtp.RcptOptions) error     { return nil }
func (s *slrSess) Data(r io.Reader) error                  { return nil }
func (s *slrSess) Logout() error {
	if atomic.AddInt32(&s.be.logouts, 1) == 1 {
		close(s.be.entered)
		<-s.be.release
	}
	return nil
}

func TestProbeStartTLSLogoutRace(t *testing.T) {
	key, _ := ecdsa.GenerateKey(elliptic.P256(), rand.Reader)
	tmpl := &x509.Certificate{SerialNumber: big.NewInt(1), Subject: pkix.Name{CommonName: "localhost"}, NotBefore: time.Now().Add(-time.Hour), NotAfter: time.Now().Add(time.Hour),
		KeyUsage: x509.KeyUsageDigitalSignature, ExtKeyUsage: []x509.ExtKeyUsage{x509.ExtKeyUsageServerAuth}, DNSNames: []string{"localhost"}}
	der, _ := x509.CreateCertificate(rand.Reader, tmpl, tmpl, &key.PublicKey, key)
	be := &slrBE{entered: make(chan struct{}), release: make(chan struct{})}
	s := smtp.NewServer(be)
	s.Domain = "localhost"
	s.TLSConfig = &tls.Config{Certificates: []tls.Certificate{{Certificate: [][]byte{der}, PrivateKey: key}}}
	l, _ := net.Listen("tcp", "127.0.0.1:0")
	go s.Serve(l)
	c, _ := net.Dial("tcp", l.Addr().String())
	defer c.Close()
	c.SetDeadline(time.Now().Add(5 * time.Second))
	br := bufio.NewReader(c)
	line := func() string { l, _ := br.ReadString('\n'); return l }
	line()
	c.Write([]byte("EHLO a\r\n"))
	for {
		l := line()
		if len(l) < 4 || l[3] == ' ' {
			break
		}
	}
	c.Write([]byte("STARTTLS\r\n"))
	line()
	tc := tls.Client(c, &tls.Config{InsecureSkipVerify: true})
	go tc.Handshake()
	select {
	case <-be.entered:
	case <-time.After(3 * time.Second):
		t.Fatal("the STARTTLS handler never logged the plaintext session out")
	}
	closed := make(chan struct{})
	go func() { s.Close(); close(closed) }()
	time.Sleep(300 * time.Millisecond)
	n := atomic.LoadInt32(&be.logouts)
	close(be.release)
	<-closed
	if n != 1 {
		t.Fatalf("Logout was entered %d times while the first call was still running (STARTTLS and Server.Close both logged the session out)", n)
	}
	if n := atomic.LoadInt32(&be.logouts); n != 1 {
		t.Fatalf("the session was logged out %d times", n)
	}
}
