package smtp_test

// Probe for C04 known findings: input octets echoed into reply text carry bare CR / NUL.

import (
	"io"
	"net"
	"testing"
	"time"

	"github.com/emersion/go-smtp"
)

type p8be struct{}
type p8s struct{}

func (p8be) NewSession(c *smtp.Conn) (smtp.Session, error) { return p8s{}, nil }
func (p8s) Reset()                                       {}
func (p8s) Logout() error                                { return nil }
func (p8s) Mail(from string, o *smtp.MailOptions) error   { return nil }
func (p8s) Rcpt(to string, o *smtp.RcptOptions) error     { return nil }
func (p8s) Data(r io.Reader) error                       { io.Copy(io.Discard, r); return nil }

func p8run(t *testing.T, lmtp bool, script string) string {
	s := smtp.NewServer(p8be{})
	s.Domain = "localhost"
	s.LMTP = lmtp
	l, _ := net.Listen("tcp", "127.0.0.1:0")
	go s.Serve(l)
	defer s.Close()
	c, _ := net.Dial("tcp", l.Addr().String())
	c.Write([]byte(script))
	c.SetReadDeadline(time.Now().Add(time.Second))
	out, _ := io.ReadAll(c)
	return string(out)
}

func bareCR(s string) bool {
	for i := 0; i < len(s); i++ {
		if s[i] == '\r' && (i+1 >= len(s) || s[i+1] != '\n') {
			return true
		}
		if s[i] == 0 {
			return true
		}
	}
	return false
}

func TestProbeP8(t *testing.T) {
	cases := map[string]string{
		"unknown command": "AB\rD foo\r\nQUIT\r\n",
		"HELO domain":     "HELO a\rb\r\nQUIT\r\n",
		"EHLO domain":     "EHLO a\rb\r\nQUIT\r\n",
		"MAIL from":       "EHLO a\r\nMAIL FROM:<a\rb@c>\r\nQUIT\r\n",
		"RCPT to":         "EHLO a\r\nMAIL FROM:<a@c>\r\nRCPT TO:<x\ry@z>\r\nQUIT\r\n",
	}
	bad := 0
	for name, script := range cases {
		out := p8run(t, false, script)
		if bareCR(out) {
			bad++
			t.Logf("%s: reply text carries a bare CR: %q", name, out)
		}
	}
	out := p8run(t, true, "LHLO a\r\nMAIL FROM:<a@c>\r\nRCPT TO:<x\ry@z>\r\nDATA\r\nhi\r\n.\r\nQUIT\r\n")
	if bareCR(out) {
		bad++
		t.Logf("LMTP per-recipient reply: %q", out)
	}
	if bad > 0 {
		t.Fatalf("%d echo sites put control octets into reply text", bad)
	}
}
