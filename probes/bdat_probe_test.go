package smtp_test

import (
	"errors"
	"io"
	"net"
	"strings"
	"sync"
	"testing"
	"time"

	"github.com/emersion/go-smtp"
)

type pbBe struct {
	mu      sync.Mutex
	mails   []string
	dataErr []error
	bodies  []string
}
type pbS struct{ be *pbBe }

func (b *pbBe) NewSession(c *smtp.Conn) (smtp.Session, error) { return &pbS{b}, nil }
func (s *pbS) Reset()                                      {}
func (s *pbS) Logout() error                               { return nil }
func (s *pbS) Mail(from string, o *smtp.MailOptions) error {
	s.be.mu.Lock()
	s.be.mails = append(s.be.mails, from)
	s.be.mu.Unlock()
	return nil
}
func (s *pbS) Rcpt(to string, o *smtp.RcptOptions) error {
	if strings.HasPrefix(to, "no") {
		return errors.New("no such user")
	}
	return nil
}
func (s *pbS) Data(r io.Reader) error {
	b, err := io.ReadAll(r)
	s.be.mu.Lock()
	s.be.dataErr = append(s.be.dataErr, err)
	s.be.bodies = append(s.be.bodies, string(b))
	s.be.mu.Unlock()
	return err
}

func pbServe(t *testing.T, be *pbBe, maxLine int) (net.Conn, func()) {
	s := smtp.NewServer(be)
	s.Domain = "localhost"
	if maxLine > 0 {
		s.MaxLineLength = maxLine
	}
	l, _ := net.Listen("tcp", "127.0.0.1:0")
	go s.Serve(l)
	c, _ := net.Dial("tcp", l.Addr().String())
	return c, func() { s.Close() }
}

// P5: refused BDAT (no accepted recipient) must discard its payload
func TestProbeP5(t *testing.T) {
	be := &pbBe{}
	c, done := pbServe(t, be, 0)
	defer done()
	payload := "MAIL FROM:<bait@evil>\r\n"
	c.Write([]byte("EHLO a\r\nMAIL FROM:<a@b>\r\nRCPT TO:<nobody@d>\r\nBDAT 23 LAST\r\n" + payload + "QUIT\r\n"))
	c.SetReadDeadline(time.Now().Add(2 * time.Second))
	out, _ := io.ReadAll(c)
	time.Sleep(50 * time.Millisecond)
	for _, m := range be.mails {
		if strings.Contains(m, "bait") {
			t.Fatalf("payload of a refused BDAT executed as a command: Mail(%q)\n%q", m, out)
		}
	}
}

// P5b: BDAT with a bad LAST token in the middle of a transfer must not allow the message to complete without it
func TestProbeP5b(t *testing.T) {
	be := &pbBe{}
	c, done := pbServe(t, be, 0)
	defer done()
	c.Write([]byte("EHLO a\r\nMAIL FROM:<a@b>\r\nRCPT TO:<c@d>\r\nBDAT 3\r\nabcBDAT 3 LASTX\r\ndefBDAT 3 LAST\r\nghiQUIT\r\n"))
	c.SetReadDeadline(time.Now().Add(2 * time.Second))
	out, _ := io.ReadAll(c)
	time.Sleep(50 * time.Millisecond)
	be.mu.Lock()
	defer be.mu.Unlock()
	for i, b := range be.bodies {
		if be.dataErr[i] == nil && b != "abcdefghi" {
			t.Fatalf("backend was handed %q as a complete message\n%q", b, out)
		}
	}
}

// P6: short LAST chunk + disconnect must not look complete
func TestProbeP6(t *testing.T) {
	be := &pbBe{}
	c, done := pbServe(t, be, 0)
	defer done()
	c.Write([]byte("EHLO a\r\nMAIL FROM:<a@b>\r\nRCPT TO:<c@d>\r\nBDAT 10 LAST\r\nabc"))
	time.Sleep(100 * time.Millisecond)
	c.SetReadDeadline(time.Now().Add(100 * time.Millisecond))
	io.ReadAll(c) // consume the replies so that closing sends FIN, not RST
	c.Close()
	time.Sleep(200 * time.Millisecond)
	be.mu.Lock()
	defer be.mu.Unlock()
	if len(be.dataErr) != 1 {
		t.Fatalf("expected one Data call, got %d", len(be.dataErr))
	}
	t.Logf("Data saw body=%q err=%v", be.bodies[0], be.dataErr[0])
	if be.dataErr[0] == nil {
		t.Fatalf("backend read %q and then a clean EOF although only 3 of 10 octets arrived", be.bodies[0])
	}
}

// P14: the line limit must be in force for the command after a non-LAST chunk
func TestProbeP14(t *testing.T) {
	be := &pbBe{}
	c, done := pbServe(t, be, 100)
	defer done()
	c.Write([]byte("EHLO a\r\nMAIL FROM:<a@b>\r\nRCPT TO:<c@d>\r\nBDAT 1\r\nx"))
	time.Sleep(200 * time.Millisecond)
	c.Write([]byte(strings.Repeat("A", 5000) + "\r\nQUIT\r\n"))
	c.SetReadDeadline(time.Now().Add(2 * time.Second))
	out, _ := io.ReadAll(c)
	if !strings.Contains(string(out), "Too long line") {
		t.Fatalf("a 5000-octet command line was accepted with MaxLineLength=100 after a non-LAST chunk:\n%q", out)
	}
}
