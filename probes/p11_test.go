package smtp_test

// Probe for C17: a multi-line SMTPError returned by the backend comes back from the go-smtp
// client as an equal SMTPError (RFC 2034: the enhanced code is repeated on every line).

import (
	"io"
	"net"
	"testing"

	"github.com/emersion/go-smtp"
)

type p11be struct{ err error }
type p11s struct{ be *p11be }

func (b *p11be) NewSession(c *smtp.Conn) (smtp.Session, error) { return &p11s{b}, nil }
func (s *p11s) Reset()                                       {}
func (s *p11s) Logout() error                                { return nil }
func (s *p11s) Mail(from string, o *smtp.MailOptions) error  { return nil }
func (s *p11s) Rcpt(to string, o *smtp.RcptOptions) error    { return s.be.err }
func (s *p11s) Data(r io.Reader) error                       { io.Copy(io.Discard, r); return nil }

func TestProbeP11(t *testing.T) {
	for _, want := range []*smtp.SMTPError{
		{Code: 554, EnhancedCode: smtp.EnhancedCode{5, 7, 1}, Message: "first line\nsecond line"},
		{Code: 451, EnhancedCode: smtp.EnhancedCode{4, 3, 0}, Message: "a\nb\nc d"},
		{Code: 550, EnhancedCode: smtp.EnhancedCode{5, 1, 1}, Message: "single line"},
		{Code: 550, Message: "no enhanced code set\nsecond"},
	} {
		be := &p11be{err: want}
		s := smtp.NewServer(be)
		s.Domain = "localhost"
		l, _ := net.Listen("tcp", "127.0.0.1:0")
		go s.Serve(l)
		c, err := smtp.Dial(l.Addr().String())
		if err != nil {
			t.Fatal(err)
		}
		c.Hello("a")
		c.Mail("a@b", nil)
		got := c.Rcpt("c@d", nil)
		se, ok := got.(*smtp.SMTPError)
		wantEnh := want.EnhancedCode
		if wantEnh == smtp.EnhancedCodeNotSet {
			wantEnh = smtp.EnhancedCode{want.Code / 100, 0, 0}
		}
		if !ok || se.Code != want.Code || se.EnhancedCode != wantEnh || se.Message != want.Message {
			t.Errorf("backend returned %#v, the client reports %#v", want, got)
		}
		c.Close()
		s.Close()
	}
}
