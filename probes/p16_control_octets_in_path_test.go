package smtp_test

import (
	"bufio"
	"io"
	"io/ioutil"
	"net"
	"strings"
	"sync"
	"testing"
	"time"

	"github.com/emersion/go-smtp"
)

type coBackend struct {
	mu    sync.Mutex
	calls []string
}
type coSession struct{ b *coBackend }

func (b *coBackend) NewSession(c *smtp.Conn) (smtp.Session, error) { return &coSession{b}, nil }
func (s *coSession) Reset()                                       {}
func (s *coSession) Logout() error                                { return nil }
func (s *coSession) Mail(from string, o *smtp.MailOptions) error {
	s.b.mu.Lock()
	s.b.calls = append(s.b.calls, "MAIL "+from)
	s.b.mu.Unlock()
	return nil
}
func (s *coSession) Rcpt(to string, o *smtp.RcptOptions) error {
	s.b.mu.Lock()
	s.b.calls = append(s.b.calls, "RCPT "+to)
	s.b.mu.Unlock()
	return nil
}
func (s *coSession) Data(r io.Reader) error { _, err := io.Copy(ioutil.Discard, r); return err }

// RFC 5321 4.1.2: a Dot-string is made of atext, a Domain of Let-dig / "-" / "."; control octets
// (bare CR, NUL, DEL, ...) occur in neither. Property C11: a malformed path is refused and the backend
// is not called.
func TestProbeControlOctetsInPath(t *testing.T) {
	be := &coBackend{}
	s := smtp.NewServer(be)
	s.Domain = "x"
	l, err := net.Listen("tcp", "127.0.0.1:0")
	if err != nil {
		t.Fatal(err)
	}
	go s.Serve(l)
	defer s.Close()
	c, err := net.Dial("tcp", l.Addr().String())
	if err != nil {
		t.Fatal(err)
	}
	defer c.Close()
	br := bufio.NewReader(c)
	rd := func() string {
		c.SetReadDeadline(time.Now().Add(2 * time.Second))
		l, _ := br.ReadString('\n')
		return strings.TrimSpace(l)
	}
	rd()
	io.WriteString(c, "HELO a\r\n")
	rd()
	for _, line := range []string{"MAIL FROM:<a\rb@c>", "RSET", "MAIL FROM:<a\x01b@c>", "RSET", "MAIL FROM:<ab@c\x7fd>", "RCPT TO:<x\x00y@c>", "RCPT TO:<xy@c\rRCPT TO:<z@c>>"} {
		io.WriteString(c, line+"\r\n")
		r := rd()
		if line != "RSET" && !strings.HasPrefix(r, "5") {
			t.Errorf("%q answered %q", line, r)
		}
	}
	be.mu.Lock()
	defer be.mu.Unlock()
	for _, x := range be.calls {
		t.Errorf("backend called: %q", x)
	}
}
