package main

import (
	"fmt"
	"go/token"
	"go/types"
	"os"
	"path/filepath"
	"sort"
	"strings"

	"golang.org/x/tools/go/packages"
	"golang.org/x/tools/go/ssa"
	"golang.org/x/tools/go/ssa/ssautil"
)

// spec-only pseudo types
var (
	tyIntArr = types.NewNamed(types.NewTypeName(token.NoPos, nil, "intarr", nil), types.NewStruct(nil, nil), nil)
	tyStrArr = types.NewNamed(types.NewTypeName(token.NoPos, nil, "strarr", nil), types.NewStruct(nil, nil), nil)
	tyIntSet = types.NewNamed(types.NewTypeName(token.NoPos, nil, "intset", nil), types.NewStruct(nil, nil), nil)
	tyStrSet = types.NewNamed(types.NewTypeName(token.NoPos, nil, "strset", nil), types.NewStruct(nil, nil), nil)
	tyInt    = types.Typ[types.Int]
	tyBool   = types.Typ[types.Bool]
	tyStr    = types.Typ[types.String]
	tyRef    = types.Typ[types.UnsafePointer]
	tyErr    = types.Universe.Lookup("error").Type()
	tyAny    = types.NewInterfaceType(nil, nil)
)

type World struct {
	repo  string
	fset  *token.FileSet
	prog  *ssa.Program
	pkg   *ssa.Package
	tpkg  *types.Package
	ppkg  *packages.Package
	db    *SpecDB
	funcs map[string]*ssa.Function // by RelString name
	ghost map[string]map[string]*GhostField // owner type name -> field -> decl
	globalAxioms []string
	axiomNames   []string
	globalsWritten map[string]bool
	verifRoot string
	sweep map[string]bool
	closedElems map[string]bool
	volatile map[string]string // volatile ghost arrays -> element sort
}

func loadWorld(repo, verifRoot string) (*World, error) {
	cfg := &packages.Config{Mode: packages.LoadAllSyntax, Dir: repo, BuildFlags: []string{"-tags=verif"},
		Env: append(os.Environ(), "GOFLAGS=-mod=mod", "GOPROXY=off", "GOSUMDB=off", "GOTOOLCHAIN=local")}
	pkgs, err := packages.Load(cfg, ".")
	if err != nil {
		return nil, err
	}
	if len(pkgs) != 1 {
		return nil, fmt.Errorf("expected one package, got %d", len(pkgs))
	}
	if len(pkgs[0].Errors) > 0 {
		return nil, fmt.Errorf("package errors: %v", pkgs[0].Errors)
	}
	prog, spkgs := ssautil.AllPackages(pkgs, ssa.InstantiateGenerics|ssa.GlobalDebug)
	prog.Build()
	w := &World{repo: repo, fset: pkgs[0].Fset, prog: prog, pkg: spkgs[0], tpkg: pkgs[0].Types, ppkg: pkgs[0],
		funcs: map[string]*ssa.Function{}, ghost: map[string]map[string]*GhostField{}, verifRoot: verifRoot,
		globalsWritten: map[string]bool{}}
	for fn := range ssautil.AllFunctions(prog) {
		if fn.Pkg == w.pkg || (fn.Parent() != nil && w.inPkg(fn)) {
			w.funcs[w.relName(fn)] = fn
		}
	}
	// which package-level variables are ever written outside init?
	for _, fn := range w.funcs {
		if fn.Name() == "init" {
			continue
		}
		for _, b := range fn.Blocks {
			for _, in := range b.Instrs {
				if st, ok := in.(*ssa.Store); ok {
					if gl, ok := st.Addr.(*ssa.Global); ok {
						w.globalsWritten[gl.Name()] = true
					}
				}
			}
		}
	}
	w.db = newSpecDB()
	specs, _ := filepath.Glob(filepath.Join(verifRoot, "spec", "*.gspec"))
	sort.Strings(specs)
	for _, s := range specs {
		if err := w.db.loadSpecFile(s, ""); err != nil {
			return nil, err
		}
	}
	cf := filepath.Join(repo, "contracts_verif.go")
	if _, err := os.Stat(cf); err == nil {
		if err := w.db.loadSpecFile(cf, "//@"); err != nil {
			return nil, err
		}
	}
	w.volatile = map[string]string{}
	for _, gf := range w.db.Ghosts {
		if w.ghost[gf.Owner] == nil {
			w.ghost[gf.Owner] = map[string]*GhostField{}
		}
		w.ghost[gf.Owner][gf.Name] = gf
		if gf.Volatile {
			if t, err := w.parseType(gf.Type); err == nil {
				w.volatile["G!"+gf.Owner+"!"+gf.Name] = sortOf(t)
			}
		}
	}
	return w, nil
}

// closesChan: does the package ever call close() on a channel with this element type?
// (mechanical scan; sends on channels that are never closed cannot panic)
func (w *World) closesChan(t types.Type) bool {
	ct, ok := t.Underlying().(*types.Chan)
	if !ok {
		return true
	}
	if w.closedElems == nil {
		w.closedElems = map[string]bool{}
		for _, fn := range w.funcs {
			for _, b := range fn.Blocks {
				for _, in := range b.Instrs {
					if c, ok := in.(*ssa.Call); ok {
						if bi, ok := c.Call.Value.(*ssa.Builtin); ok && bi.Name() == "close" {
							if cc, ok := c.Call.Args[0].Type().Underlying().(*types.Chan); ok {
								w.closedElems[types.TypeString(cc.Elem(), nil)] = true
							}
						}
					}
				}
			}
		}
	}
	return w.closedElems[types.TypeString(ct.Elem(), nil)]
}

func (w *World) inPkg(fn *ssa.Function) bool {
	for p := fn; p != nil; p = p.Parent() {
		if p.Pkg == w.pkg {
			return true
		}
	}
	return false
}

func (w *World) relName(fn *ssa.Function) string {
	if w.inPkg(fn) {
		return fn.RelString(w.tpkg)
	}
	return fn.String()
}

// typeName gives the short name used for heap arrays and ghost owners: Conn, bufio.Reader, ...
func (w *World) typeName(t types.Type) string {
	if p, ok := t.(*types.Pointer); ok {
		t = p.Elem()
	}
	if p, ok := t.Underlying().(*types.Pointer); ok && t != t.Underlying() {
		_ = p
	}
	s := types.TypeString(t, func(p *types.Package) string {
		if p == w.tpkg {
			return ""
		}
		return p.Name()
	})
	// anonymous types: make the name usable inside SMT symbols
	var sb strings.Builder
	for _, r := range s {
		if r >= 'a' && r <= 'z' || r >= 'A' && r <= 'Z' || r >= '0' && r <= '9' || r == '_' || r == '.' {
			sb.WriteRune(r)
		} else {
			sb.WriteByte('_')
		}
	}
	return sb.String()
}

// parseType resolves a type written in a spec file.
func (w *World) parseType(s string) (types.Type, error) {
	s = strings.TrimSpace(s)
	switch s {
	case "int":
		return tyInt, nil
	case "int64":
		return types.Typ[types.Int64], nil
	case "byte":
		return types.Typ[types.Uint8], nil
	case "rune":
		return types.Typ[types.Int32], nil
	case "bool":
		return tyBool, nil
	case "string":
		return tyStr, nil
	case "intarr":
		return tyIntArr, nil
	case "strarr":
		return tyStrArr, nil
	case "intset":
		return tyIntSet, nil
	case "strset":
		return tyStrSet, nil
	case "ref":
		return tyRef, nil
	case "error":
		return tyErr, nil
	case "any":
		return tyAny, nil
	}
	if strings.HasPrefix(s, "*") {
		e, err := w.parseType(s[1:])
		if err != nil {
			return nil, err
		}
		return types.NewPointer(e), nil
	}
	if strings.HasPrefix(s, "[]") {
		e, err := w.parseType(s[2:])
		if err != nil {
			return nil, err
		}
		return types.NewSlice(e), nil
	}
	if strings.HasPrefix(s, "chan ") {
		e, err := w.parseType(s[5:])
		if err != nil {
			return nil, err
		}
		return types.NewChan(types.SendRecv, e), nil
	}
	if strings.HasPrefix(s, "map[") {
		d := 0
		for i := 4; i < len(s); i++ {
			if s[i] == '[' {
				d++
			} else if s[i] == ']' {
				if d == 0 {
					k, err := w.parseType(s[4:i])
					if err != nil {
						return nil, err
					}
					v, err := w.parseType(s[i+1:])
					if err != nil {
						return nil, err
					}
					return types.NewMap(k, v), nil
				}
				d--
			}
		}
	}
	if i := strings.LastIndex(s, "."); i >= 0 {
		pn, tn := s[:i], s[i+1:]
		var found types.Type
		var visit func(p *types.Package, seen map[*types.Package]bool)
		visit = func(p *types.Package, seen map[*types.Package]bool) {
			if seen[p] || found != nil {
				return
			}
			seen[p] = true
			if p.Name() == pn || p.Path() == pn {
				if o := p.Scope().Lookup(tn); o != nil {
					if _, ok := o.(*types.TypeName); ok {
						found = o.Type()
						return
					}
				}
			}
			for _, q := range p.Imports() {
				visit(q, seen)
			}
		}
		visit(w.tpkg, map[*types.Package]bool{})
		if found == nil {
			return nil, fmt.Errorf("unknown type %s", s)
		}
		return found, nil
	}
	if o := w.tpkg.Scope().Lookup(s); o != nil {
		if _, ok := o.(*types.TypeName); ok {
			return o.Type(), nil
		}
	}
	return nil, fmt.Errorf("unknown type %s", s)
}

func (w *World) mustType(s string) types.Type {
	t, err := w.parseType(s)
	if err != nil {
		panic(err)
	}
	return t
}
