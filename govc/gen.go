package main

// Core of the verification-condition generator: SMT script under construction,
// sorts, heap arrays, obligations.

import (
	"fmt"
	"os"
	"go/token"
	"go/types"
	"sort"
	"strings"

	"golang.org/x/tools/go/ssa"
)

const prelude = `(set-option :produce-models true)
(set-logic ALL)
(declare-sort Str 0)
(declare-sort Opq 0)
(declare-datatypes ((Slice 0)) (((mk-slice (s-arr Int) (s-off Int) (s-len Int) (s-cap Int)))))
(declare-datatypes ((Iface 0)) (((mk-iface (i-tag Int) (i-val Int)))))
(declare-fun slen (Str) Int)
(declare-fun sat (Str Int) Int)
(declare-fun fref (Int Int) Int)
(declare-fun eref (Int Int) Int)
(declare-fun box!Str (Str) Int)
(declare-fun unbox!Str (Int) Str)
(declare-fun box!Opq (Opq) Int)
(declare-fun box!Slice (Slice) Int)
(declare-fun box!Bool (Bool) Int)
(declare-fun implements (Int Int) Bool)
(declare-const str!empty Str)
(assert (forall ((s Str)) (! (and (>= (slen s) 0) (<= (slen s) 9223372036854775807)) :pattern ((slen s)))))
(assert (forall ((s Str) (i Int)) (! (and (<= 0 (sat s i)) (<= (sat s i) 255)) :pattern ((sat s i)))))
(assert (forall ((s Str)) (! (= (= (slen s) 0) (= s str!empty)) :pattern ((slen s)))))
(assert (forall ((s Str)) (! (= (unbox!Str (box!Str s)) s) :pattern ((box!Str s)))))
(assert (forall ((a Int) (b Int)) (! (not (= (fref a b) 0)) :pattern ((fref a b)))))
(assert (forall ((a Int) (b Int)) (! (not (= (eref a b) 0)) :pattern ((eref a b)))))
(declare-fun slot (Int Int) Int)
(assert (forall ((a Int) (b Int)) (! (= (slot a b) (+ a b)) :pattern ((slot a b)))))
(define-fun iface-nil () Iface (mk-iface 0 0))
(declare-const recovered! Bool)
(define-fun slice-nil () Slice (mk-slice 0 0 0 0))
(define-fun wfslice ((s Slice)) Bool (and (<= 0 (s-off s)) (<= 0 (s-len s)) (<= (s-len s) (s-cap s)) (<= (+ (s-off s) (s-cap s)) 9223372036854775807)))
(define-fun inrange ((x Int) (lo Int) (hi Int)) Bool (and (<= lo x) (<= x hi)))
`

type Obligation struct {
	Name   string
	Func   string // top-level function under contract
	Kind   string // post, loop-init, loop-preserve, call-pre, safety, frame, lemma, cover
	Props  []string
	Prefix int      // number of script lines that form the hypothesis prefix
	Extra  []string // extra declarations / assertions (skolem constants) local to this obligation
	Guard  string
	Goal   string
	Src    string // source text of the clause
	Pos    token.Position
	Cover  bool // expect sat (vacuity check)
	Inputs []InputTerm

	// results
	Status  string // unsat (discharged), sat, unknown, timeout, error
	Solver  string
	Seconds float64
	Model   map[string]string
	Output  string
	gen     *Gen
	// bounded stand-ins only
	Evals      int  // cases enumerated
	Reproduced bool // the failure is a real failing input of the real code
}

type InputTerm struct {
	Name string
	Term string
}

type Gen struct {
	W      *World
	fn     *ssa.Function
	fnName string
	con    *Contract

	lines    []string
	declared map[string]bool
	obls     []*Obligation
	ctr      int
	instCtr  int
	strLits  map[string]string
	tags     map[string]int
	oblCount map[string]int
	notes    []string // abstractions, out-of-subset remarks
	assumed  map[string]bool
	recSeen  map[string]bool // unfolded applications of rec funcs
	inputs   []InputTerm
	fieldIDs map[string]int
	heapArrs map[string]string // array name -> sort, all arrays seen
	abstracted map[string]bool
	inlined  map[string]bool
	usedStubs map[string]bool
	assumedPosts map[string]bool // `assumes` clauses of the function under verification (reported as assumptions)
	usedContracts map[string]bool
	unfoldQueue []string
	errs []string
	sentinelList []sentinel
	checkOverflow bool
	freshTerms map[string]bool // terms denoting references / slices allocated by this function
	dirty      map[string]bool // heap arrays written at an index that is not known to be fresh
	clean      map[string]bool // from a previous pass: arrays that are never dirty (frame holds trivially)
	classes    []*StrClass
}

// markFresh records that a reference or slice value denotes memory allocated by this function.
func (g *Gen) markFresh(term string) {
	g.freshTerms[term] = true
	g.freshTerms["(s-arr "+term+")"] = true
}

func (g *Gen) isFresh(term string) bool {
	if g.freshTerms[term] || term == "slice-nil" || term == "(s-arr slice-nil)" {
		return true
	}
	// a field of a fresh object
	if strings.HasPrefix(term, "(fref ") {
		inner := term[6:]
		if i := strings.LastIndex(inner, " "); i > 0 {
			return g.isFresh(inner[:i])
		}
	}
	return false
}

// noteWrite records a write to heap array arr at index idx.
func (g *Gen) noteWrite(arr, idx string) {
	if !g.isFresh(idx) {
		if os.Getenv("GOVC_DEBUG") != "" && !g.dirty[arr] {
			fmt.Fprintf(os.Stderr, "dirty %s: write at %s\n", arr, idx)
		}
		g.dirty[arr] = true
	}
}

func (w *World) newGen(fn *ssa.Function, con *Contract) *Gen {
	g := &Gen{W: w, fn: fn, con: con,
		declared: map[string]bool{}, strLits: map[string]string{}, tags: map[string]int{},
		oblCount: map[string]int{}, assumed: map[string]bool{}, recSeen: map[string]bool{},
		fieldIDs: map[string]int{}, heapArrs: map[string]string{}, abstracted: map[string]bool{},
		inlined: map[string]bool{}, usedStubs: map[string]bool{}, assumedPosts: map[string]bool{}, usedContracts: map[string]bool{},
		freshTerms: map[string]bool{}, dirty: map[string]bool{}}
	if fn != nil {
		g.fnName = w.relName(fn)
	}
	g.strLits[""] = "str!empty"
	return g
}

func (g *Gen) fresh(prefix string) string {
	g.ctr++
	return fmt.Sprintf("%s!%d", prefix, g.ctr)
}

func (g *Gen) emit(line string) { g.lines = append(g.lines, line) }

func (g *Gen) comment(f string, a ...interface{}) {
	g.emit("; " + strings.ReplaceAll(fmt.Sprintf(f, a...), "\n", " "))
}

func (g *Gen) declare(name, sort string) {
	if g.declared[name] {
		return
	}
	g.declared[name] = true
	g.emit(fmt.Sprintf("(declare-const %s %s)", name, sort))
}

func (g *Gen) declareFun(name string, args []string, ret string) {
	if g.declared[name] {
		return
	}
	g.declared[name] = true
	g.emit(fmt.Sprintf("(declare-fun %s (%s) %s)", name, strings.Join(args, " "), ret))
}

func (g *Gen) define(name, sort, term string) {
	if g.declared[name] {
		panic("redefine " + name)
	}
	g.declared[name] = true
	g.emit(fmt.Sprintf("(define-fun %s () %s %s)", name, sort, term))
}

func (g *Gen) assume(term string) {
	if term == "true" {
		return
	}
	g.emit(fmt.Sprintf("(assert %s)", term))
}

func (g *Gen) assumeUnder(guard, term string) {
	if term == "true" {
		return
	}
	if guard == "true" {
		g.assume(term)
		return
	}
	g.emit(fmt.Sprintf("(assert (=> %s %s))", guard, term))
}

func (g *Gen) note(f string, a ...interface{}) {
	s := fmt.Sprintf(f, a...)
	for _, n := range g.notes {
		if n == s {
			return
		}
	}
	g.notes = append(g.notes, s)
}

func (g *Gen) errorf(f string, a ...interface{}) {
	g.errs = append(g.errs, fmt.Sprintf(f, a...))
}

// addObl registers an obligation whose hypotheses are all script lines emitted so far.
func (g *Gen) addObl(kind, name string, props []string, guard, goal string, extra []string, src string, pos token.Pos) *Obligation {
	full := g.fnName + "/" + name
	g.oblCount[full]++
	if n := g.oblCount[full]; n > 1 {
		full = fmt.Sprintf("%s~%d", full, n)
	}
	o := &Obligation{Name: full, Func: g.fnName, Kind: kind, Props: props, Prefix: len(g.lines), Extra: extra,
		Guard: guard, Goal: goal, Src: src, gen: g}
	if pos.IsValid() {
		o.Pos = g.W.fset.Position(pos)
	}
	g.obls = append(g.obls, o)
	return o
}

// query assembles the SMT-LIB text for an obligation.
func (o *Obligation) query(getModel bool) string {
	if o.gen == nil && o.Kind == "bounded" {
		return "; bounded stand-in (exhaustive enumeration on the real code), not an SMT query\n; " + o.Name + "\n; " + o.Src + "\n"
	}
	if o.gen == nil {
		return "; obligation decided by the generator's ownership dataflow, not by SMT\n; " + o.Name + "\n; " + o.Src + "\n; " + o.Output + "\n"
	}
	var sb strings.Builder
	sb.WriteString(prelude)
	g := o.gen
	for _, a := range g.W.globalAxioms {
		sb.WriteString(a)
		sb.WriteByte('\n')
	}
	for _, l := range g.lines[:o.Prefix] {
		sb.WriteString(l)
		sb.WriteByte('\n')
	}
	for _, l := range o.Extra {
		sb.WriteString(l)
		sb.WriteByte('\n')
	}
	sb.WriteString("; ---- obligation " + o.Name + "\n")
	if o.Src != "" {
		sb.WriteString("; " + strings.ReplaceAll(o.Src, "\n", " ") + "\n")
	}
	if o.Cover {
		fmt.Fprintf(&sb, "(assert %s)\n(assert %s)\n", o.Guard, o.Goal)
	} else {
		fmt.Fprintf(&sb, "(assert %s)\n(assert (not %s))\n", o.Guard, o.Goal)
	}
	sb.WriteString("(check-sat)\n")
	if getModel && len(o.Inputs) > 0 {
		var ts []string
		for _, it := range o.Inputs {
			ts = append(ts, it.Term)
		}
		fmt.Fprintf(&sb, "(get-value (%s))\n", strings.Join(ts, " "))
	}
	return sb.String()
}

// ---------- sorts ----------

func (g *Gen) sortOf(t types.Type) string { return sortOf(t) }

func sortOf(t types.Type) string {
	if t == tyIntArr {
		return "(Array Int Int)"
	}
	if t == tyStrArr {
		return "(Array Int Str)"
	}
	if t == tyIntSet {
		return "(Array Int Bool)"
	}
	if t == tyStrSet {
		return "(Array Str Bool)"
	}
	switch u := t.Underlying().(type) {
	case *types.Basic:
		switch {
		case u.Info()&types.IsBoolean != 0:
			return "Bool"
		case u.Info()&types.IsInteger != 0:
			return "Int"
		case u.Info()&types.IsString != 0:
			return "Str"
		case u.Kind() == types.UnsafePointer:
			return "Int"
		case u.Kind() == types.UntypedNil:
			return "Int"
		}
		return "Opq" // floats, complex
	case *types.Pointer, *types.Map, *types.Chan, *types.Signature:
		return "Int"
	case *types.Slice:
		return "Slice"
	case *types.Interface:
		return "Iface"
	case *types.Array:
		return "(Array Int " + sortOf(u.Elem()) + ")"
	case *types.Struct:
		return "Opq"
	case *types.Tuple:
		return "TUPLE"
	}
	return "Opq"
}

func sortTag(sort string) string {
	r := strings.NewReplacer("(", "", ")", "", " ", "_")
	return r.Replace(sort)
}

// intRange returns the value range of an integer type.
func intRange(t types.Type) (lo, hi string, ok bool) {
	b, isb := t.Underlying().(*types.Basic)
	if !isb || b.Info()&types.IsInteger == 0 {
		return "", "", false
	}
	switch b.Kind() {
	case types.Int8:
		return "(- 128)", "127", true
	case types.Int16:
		return "(- 32768)", "32767", true
	case types.Int32:
		return "(- 2147483648)", "2147483647", true
	case types.Int, types.Int64, types.UntypedInt, types.UntypedRune:
		return "(- 9223372036854775808)", "9223372036854775807", true
	case types.Uint8:
		return "0", "255", true
	case types.Uint16:
		return "0", "65535", true
	case types.Uint32:
		return "0", "4294967295", true
	case types.Uint, types.Uint64, types.Uintptr:
		return "0", "18446744073709551615", true
	}
	return "", "", false
}

// typeInv returns the typing invariant of a value of Go type t (as an SMT term) or "true".
func (g *Gen) typeInv(term string, t types.Type) string {
	if t == nil {
		return "true"
	}
	if lo, hi, ok := intRange(t); ok {
		return fmt.Sprintf("(inrange %s %s %s)", term, lo, hi)
	}
	switch t.Underlying().(type) {
	case *types.Slice:
		return fmt.Sprintf("(wfslice %s)", term)
	case *types.Interface:
		inv := fmt.Sprintf("(=> (= (i-tag %s) 0) (= (i-val %s) 0))", term, term)
		if types.Identical(t, tyErr) {
			// modelling assumption (listed): error values never hold a typed-nil *SMTPError
			if st, err := g.W.parseType("*SMTPError"); err == nil {
				inv = fmt.Sprintf("(and %s (=> (= (i-tag %s) %s) (not (= (i-val %s) 0))))", inv, term, g.typeTag(st), term)
			}
		}
		return inv
	}
	return "true"
}

func (g *Gen) zeroOf(t types.Type) string {
	switch sortOf(t) {
	case "Int":
		return "0"
	case "Bool":
		return "false"
	case "Str":
		return "str!empty"
	case "Slice":
		return "slice-nil"
	case "Iface":
		return "iface-nil"
	}
	s := sortOf(t)
	if strings.HasPrefix(s, "(Array Int ") {
		if a, ok := t.Underlying().(*types.Array); ok {
			return fmt.Sprintf("((as const %s) %s)", s, g.zeroOf(a.Elem()))
		}
	}
	z := "zero!" + sortTag(s)
	g.declare(z, s)
	return z
}

// ---------- strings and tags ----------

func (g *Gen) strLit(s string) string {
	if n, ok := g.strLits[s]; ok {
		return n
	}
	n := fmt.Sprintf("str!%d", len(g.strLits))
	g.strLits[s] = n
	g.declare(n, "Str")
	g.comment("%s = %q", n, s)
	g.assume(fmt.Sprintf("(= (slen %s) %d)", n, len(s)))
	if len(s) <= 64 {
		for i := 0; i < len(s); i++ {
			g.assume(fmt.Sprintf("(= (sat %s %d) %d)", n, i, s[i]))
		}
	}
	for _, sc := range g.classes {
		g.classLiteral(sc, s, n)
	}
	// distinct from all other literals of the same length (others differ by length already)
	for o, on := range g.strLits {
		if o != s && len(o) == len(s) {
			g.assume(fmt.Sprintf("(not (= %s %s))", n, on))
		}
	}
	return n
}

func (g *Gen) typeTag(t types.Type) string {
	key := types.TypeString(t, nil)
	if n, ok := g.tags[key]; ok {
		return fmt.Sprint(n)
	}
	n := len(g.tags) + 1
	g.tags[key] = n
	g.comment("tag %d = %s", n, key)
	return fmt.Sprint(n)
}

func (g *Gen) ifaceID(t types.Type) string {
	return g.typeTag(t) // interface types share the tag numbering (used as id in implements)
}

// ---------- heap ----------

// Heap maps heap-array names to their current version (an SMT term).
type Heap struct {
	cur map[string]string
}

func (h *Heap) clone() *Heap {
	n := &Heap{cur: make(map[string]string, len(h.cur))}
	for k, v := range h.cur {
		n.cur[k] = v
	}
	return n
}

// arr returns the current version of array name (declaring the entry version lazily).
func (g *Gen) arr(h *Heap, name, elemSort string) string {
	if v, ok := h.cur[name]; ok {
		return v
	}
	g.regArr(name, elemSort)
	return g.arr0(name)
}

func (g *Gen) regArr(name, elemSort string) {
	if _, ok := g.heapArrs[name]; !ok {
		g.heapArrs[name] = elemSort
		g.declare(g.arr0(name), "(Array Int "+elemSort+")")
	}
}

func (g *Gen) arr0(name string) string { return "H0!" + name }

func (g *Gen) setArr(h *Heap, name, term string) { h.cur[name] = term }

// newVersion declares a fresh unconstrained version of an array.
func (g *Gen) havocArr(h *Heap, name, elemSort string) string {
	g.regArr(name, elemSort)
	v := g.fresh("H!" + name)
	g.declare(v, "(Array Int "+elemSort+")")
	h.cur[name] = v
	return v
}

// assignArr gives array name a new defined version (keeps terms small).
func (g *Gen) assignArr(h *Heap, name, elemSort, term string) {
	g.regArr(name, elemSort)
	v := g.fresh("H!" + name)
	g.define(v, "(Array Int "+elemSort+")", term)
	h.cur[name] = v
}

func sortedKeys(m map[string]string) []string {
	ks := make([]string, 0, len(m))
	for k := range m {
		ks = append(ks, k)
	}
	sort.Strings(ks)
	return ks
}

// mergeHeaps builds the heap at a join: for each array an ite chain over the incoming edges.
func (g *Gen) mergeHeaps(edges []string, heaps []*Heap) *Heap {
	if len(heaps) == 1 {
		return heaps[0].clone()
	}
	names := map[string]bool{}
	for _, h := range heaps {
		for k := range h.cur {
			names[k] = true
		}
	}
	var ks []string
	for k := range names {
		ks = append(ks, k)
	}
	sort.Strings(ks)
	out := &Heap{cur: map[string]string{}}
	for _, k := range ks {
		vals := make([]string, len(heaps))
		same := true
		for i, h := range heaps {
			if v, ok := h.cur[k]; ok {
				vals[i] = v
			} else {
				vals[i] = g.arr0(k)
			}
			if vals[i] != vals[0] {
				same = false
			}
		}
		if same {
			out.cur[k] = vals[0]
			continue
		}
		term := vals[len(vals)-1]
		for i := len(vals) - 2; i >= 0; i-- {
			if vals[i] == term {
				continue
			}
			term = fmt.Sprintf("(ite %s %s %s)", edges[i], vals[i], term)
		}
		v := g.fresh("H!" + k)
		g.define(v, "(Array Int "+g.heapArrs[k]+")", term)
		out.cur[k] = v
	}
	return out
}

func iteChain(conds, vals []string) string {
	term := vals[len(vals)-1]
	for i := len(vals) - 2; i >= 0; i-- {
		if vals[i] == term {
			continue
		}
		term = fmt.Sprintf("(ite %s %s %s)", conds[i], vals[i], term)
	}
	return term
}

func and(ts ...string) string {
	var out []string
	for _, t := range ts {
		if t == "true" || t == "" {
			continue
		}
		if t == "false" {
			return "false"
		}
		out = append(out, t)
	}
	switch len(out) {
	case 0:
		return "true"
	case 1:
		return out[0]
	}
	return "(and " + strings.Join(out, " ") + ")"
}

func or(ts ...string) string {
	var out []string
	for _, t := range ts {
		if t == "false" || t == "" {
			continue
		}
		if t == "true" {
			return "true"
		}
		out = append(out, t)
	}
	switch len(out) {
	case 0:
		return "false"
	case 1:
		return out[0]
	}
	return "(or " + strings.Join(out, " ") + ")"
}

func not(t string) string {
	if t == "true" {
		return "false"
	}
	if t == "false" {
		return "true"
	}
	if strings.HasPrefix(t, "(not ") && strings.HasSuffix(t, ")") && balanced(t[5:len(t)-1]) {
		return t[5 : len(t)-1]
	}
	return "(not " + t + ")"
}

func balanced(s string) bool {
	d := 0
	for i := 0; i < len(s); i++ {
		switch s[i] {
		case '(':
			d++
		case ')':
			d--
			if d < 0 {
				return false
			}
		case ' ':
			if d == 0 {
				return false
			}
		}
	}
	return d == 0
}

func smtInt(v int64) string {
	if v < 0 {
		return fmt.Sprintf("(- %d)", -v)
	}
	return fmt.Sprint(v)
}
