package main

import (
	"fmt"
	"go/token"
	"go/types"
	"strings"

	"golang.org/x/tools/go/ssa"
)

// loadLoc reads the value at a location.
func (g *Gen) loadLoc(h *Heap, l *Loc) string {
	if l.Global != nil {
		return l.Arr
	}
	if l.Pos != "" {
		return fmt.Sprintf("(select (select %s %s) %s)", g.arr(h, l.Arr, "(Array Int "+l.Sort+")"), l.Idx, l.Pos)
	}
	return fmt.Sprintf("(select %s %s)", g.arr(h, l.Arr, l.Sort), l.Idx)
}

func (g *Gen) storeLoc(h *Heap, l *Loc, v string) {
	if l.Global != nil {
		g.errorf("store to package-level variable %s (unsupported)", l.Global.Name())
		return
	}
	g.noteWrite(l.Arr, l.Idx)
	if l.Pos != "" {
		es := "(Array Int " + l.Sort + ")"
		a := g.arr(h, l.Arr, es)
		g.assignArr(h, l.Arr, es, fmt.Sprintf("(store %s %s (store (select %s %s) %s %s))", a, l.Idx, a, l.Idx, l.Pos, v))
		return
	}
	a := g.arr(h, l.Arr, l.Sort)
	g.assignArr(h, l.Arr, l.Sort, fmt.Sprintf("(store %s %s %s)", a, l.Idx, v))
}

// allocRef creates a fresh non-nil reference that was not allocated before.
func (g *Gen) allocRef(st *State, hint string) string {
	r := g.fresh("new!" + hint)
	g.declare(r, "Int")
	al := g.arr(st.heap, "alloc", "Bool")
	g.assumeUnder(st.reach, fmt.Sprintf("(and (> %s 0) (not (select %s %s)))", r, al, r))
	g.assignArr(st.heap, "alloc", "Bool", fmt.Sprintf("(store %s %s true)", al, r))
	g.markFresh(r)
	return r
}

// zeroInit initialises the memory of a freshly allocated object of type t at ref r.
func (g *Gen) zeroInit(st *State, r string, t types.Type) {
	switch u := t.Underlying().(type) {
	case *types.Struct:
		tn := g.W.typeName(t)
		for _, gf := range g.W.db.Ghosts {
			if gf.Owner == tn {
				gt := g.W.mustType(gf.Type)
				s := sortOf(gt)
				name := "G!" + tn + "!" + gf.Name
				a := g.arr(st.heap, name, s)
				g.assignArr(st.heap, name, s, fmt.Sprintf("(store %s %s %s)", a, r, g.zeroOf(gt)))
			}
		}
		for i := 0; i < u.NumFields(); i++ {
			fl := u.Field(i)
			if _, isStruct := fl.Type().Underlying().(*types.Struct); isStruct {
				if sn, ok := g.sealed(fl.Type()); ok {
					a := g.arr(st.heap, sn, "Opq")
					g.assignArr(st.heap, sn, "Opq", fmt.Sprintf("(store %s (fref %s %d) %s)", a, r, g.fieldID(tn, fl.Name()), g.zeroOf(fl.Type())))
				}
				continue // nested struct by value: addressed through fref, otherwise left unconstrained
			}
			s := sortOf(fl.Type())
			name := "F!" + tn + "!" + fl.Name()
			a := g.arr(st.heap, name, s)
			g.assignArr(st.heap, name, s, fmt.Sprintf("(store %s %s %s)", a, r, g.zeroOf(fl.Type())))
		}
	case *types.Array:
		s := sortOf(u.Elem())
		es := "(Array Int " + s + ")"
		an := elemArrName(s)
		a := g.arr(st.heap, an, es)
		g.assignArr(st.heap, an, es, fmt.Sprintf("(store %s %s ((as const %s) %s))", a, r, es, g.zeroOf(u.Elem())))
	default:
		s := sortOf(t)
		name := "C!" + sortTag(s)
		a := g.arr(st.heap, name, s)
		g.assignArr(st.heap, name, s, fmt.Sprintf("(store %s %s %s)", a, r, g.zeroOf(t)))
	}
}

// locOfPointer gives the location a pointer value refers to.
func (g *Gen) locOfPointer(p Val) *Loc {
	if p.Loc != nil {
		return p.Loc
	}
	pt, ok := p.Ty.Underlying().(*types.Pointer)
	if !ok {
		return nil
	}
	et := pt.Elem()
	switch et.Underlying().(type) {
	case *types.Struct:
		return &Loc{Struct: true, Idx: p.T, Ty: et}
	case *types.Array:
		u := et.Underlying().(*types.Array)
		s := sortOf(u.Elem())
		return &Loc{Arr: elemArrName(s), Sort: "(Array Int " + s + ")", Idx: p.T, Ty: et}
	}
	s := sortOf(et)
	return &Loc{Arr: "C!" + sortTag(s), Sort: s, Idx: p.T, Ty: et}
}

func (g *Gen) fieldID(tn, fn string) int {
	k := tn + "." + fn
	if id, ok := g.fieldIDs[k]; ok {
		return id
	}
	id := len(g.fieldIDs) + 1
	g.fieldIDs[k] = id
	return id
}

// step executes one instruction; returns false if control does not continue in this block.
func (f *frame) step(in ssa.Instruction, st *State) bool {
	g := f.g
	switch x := in.(type) {
	case *ssa.DebugRef:
		return true
	case *ssa.Alloc:
		et := x.Type().Underlying().(*types.Pointer).Elem()
		r := g.allocRef(st, sanitize(g.W.typeName(et)))
		g.zeroInit(st, r, et)
		v := Val{T: r, Ty: x.Type()}
		v.Loc = g.locOfPointer(v)
		f.regs[x] = v
	case *ssa.FieldAddr:
		base := f.val(x.X)
		stt, bt := g.structOf(base.Ty)
		if stt == nil {
			g.errorf("FieldAddr on non-struct %s", base.Ty)
			return true
		}
		baseRef := base.T
		if base.Loc != nil && base.Loc.Struct {
			baseRef = base.Loc.Idx
		}
		f.safety("nil", st, fmt.Sprintf("(not (= %s 0))", baseRef), x.Pos(), "nil pointer dereference")
		fl := stt.Field(x.Field)
		tn := g.W.typeName(bt)
		ref := fmt.Sprintf("(fref %s %d)", baseRef, g.fieldID(tn, fl.Name()))
		v := Val{T: ref, Ty: x.Type()}
		if _, isStruct := fl.Type().Underlying().(*types.Struct); isStruct {
			v.Loc = &Loc{Struct: true, Idx: ref, Ty: fl.Type()}
		} else {
			s := sortOf(fl.Type())
			v.Loc = &Loc{Arr: "F!" + tn + "!" + fl.Name(), Sort: s, Idx: baseRef, Ty: fl.Type()}
		}
		f.regs[x] = v
	case *ssa.Field:
		base := f.val(x.X)
		stt, bt := g.structOf(base.Ty)
		fl := stt.Field(x.Field)
		fnm := "fld!" + sanitize(g.W.typeName(bt)) + "!" + fl.Name()
		g.declareFun(fnm, []string{sortOf(base.Ty)}, sortOf(fl.Type()))
		f.setReg(x, fmt.Sprintf("(%s %s)", fnm, base.T))
	case *ssa.IndexAddr:
		base := f.val(x.X)
		idx := f.val(x.Index)
		switch u := base.Ty.Underlying().(type) {
		case *types.Slice:
			f.safety("bounds", st, fmt.Sprintf("(and (<= 0 %s) (< %s (s-len %s)))", idx.T, idx.T, base.T), x.Pos(), "index out of range")
			s := sortOf(u.Elem())
			pos := fmt.Sprintf("(slot (s-off %s) %s)", base.T, idx.T)
			f.regs[x] = Val{T: fmt.Sprintf("(eref (s-arr %s) %s)", base.T, pos), Ty: x.Type(),
				Loc: &Loc{Arr: elemArrName(s), Sort: s, Idx: "(s-arr " + base.T + ")", Pos: pos, Ty: u.Elem()}}
		case *types.Pointer:
			at := u.Elem().Underlying().(*types.Array)
			f.safety("bounds", st, fmt.Sprintf("(and (<= 0 %s) (< %s %d))", idx.T, idx.T, at.Len()), x.Pos(), "index out of range")
			l := g.locOfPointer(base)
			s := sortOf(at.Elem())
			f.regs[x] = Val{T: fmt.Sprintf("(eref %s %s)", l.Idx, idx.T), Ty: x.Type(),
				Loc: &Loc{Arr: l.Arr, Sort: s, Idx: l.Idx, Pos: idx.T, Ty: at.Elem()}}
		default:
			g.errorf("IndexAddr on %s", base.Ty)
		}
	case *ssa.Index:
		base := f.val(x.X)
		idx := f.val(x.Index)
		if at, ok := base.Ty.Underlying().(*types.Array); ok {
			f.safety("bounds", st, fmt.Sprintf("(and (<= 0 %s) (< %s %d))", idx.T, idx.T, at.Len()), x.Pos(), "index out of range")
			f.setReg(x, fmt.Sprintf("(select %s %s)", base.T, idx.T))
		} else if sortOf(base.Ty) == "Str" {
			f.safety("bounds", st, fmt.Sprintf("(and (<= 0 %s) (< %s (slen %s)))", idx.T, idx.T, base.T), x.Pos(), "string index out of range")
			f.setReg(x, fmt.Sprintf("(sat %s %s)", base.T, idx.T))
		} else {
			g.errorf("Index on %s", base.Ty)
		}
	case *ssa.Lookup:
		base := f.val(x.X)
		idx := f.val(x.Index)
		if sortOf(base.Ty) == "Str" {
			f.safety("bounds", st, fmt.Sprintf("(and (<= 0 %s) (< %s (slen %s)))", idx.T, idx.T, base.T), x.Pos(), "string index out of range")
			f.setReg(x, fmt.Sprintf("(sat %s %s)", base.T, idx.T))
			return true
		}
		mt := base.Ty.Underlying().(*types.Map)
		has, get, ks, vs := mapArrNames(mt)
		h := fmt.Sprintf("(select (select %s %s) %s)", g.arr(st.heap, has, "(Array "+ks+" Bool)"), base.T, idx.T)
		h = fmt.Sprintf("(and (not (= %s 0)) %s)", base.T, h)
		v := fmt.Sprintf("(ite %s (select (select %s %s) %s) %s)", h, g.arr(st.heap, get, "(Array "+ks+" "+vs+")"), base.T, idx.T, g.zeroOf(mt.Elem()))
		if x.CommaOk {
			n := f.regName(x)
			g.define(n+"_v", vs, v)
			g.define(n+"_ok", "Bool", h)
			f.regs[x] = Val{Ty: x.Type(), Tup: []Val{{T: n + "_v", Ty: mt.Elem()}, {T: n + "_ok", Ty: tyBool}}}
		} else {
			f.setReg(x, v)
		}
	case *ssa.UnOp:
		return f.unop(x, st)
	case *ssa.Store:
		addr := f.val(x.Addr)
		v := f.val(x.Val)
		l := g.locOfPointer(addr)
		if l == nil {
			g.errorf("store through %s", addr.Ty)
			return true
		}
		if addr.Loc == nil {
			f.safety("nil", st, fmt.Sprintf("(not (= %s 0))", addr.T), x.Pos(), "nil pointer dereference")
		}
		if l.Struct {
			if sn, ok := g.sealed(l.Ty); ok && sortOf(v.Ty) == "Opq" {
				g.noteWrite(sn, l.Idx)
				a := g.arr(st.heap, sn, "Opq")
				g.assignArr(st.heap, sn, "Opq", fmt.Sprintf("(store %s %s %s)", a, l.Idx, v.T))
			}
			// whole-struct store: havoc all fields of the target
			stt, _ := g.structOf(l.Ty)
			tn := g.W.typeName(l.Ty)
			for i := 0; i < stt.NumFields(); i++ {
				fl := stt.Field(i)
				if _, isStruct := fl.Type().Underlying().(*types.Struct); isStruct {
					continue
				}
				s := sortOf(fl.Type())
				name := "F!" + tn + "!" + fl.Name()
				hv := g.fresh("hv")
				g.declare(hv, s)
				g.assumeUnder(st.reach, g.typeInv(hv, fl.Type()))
				g.noteWrite(name, l.Idx)
				a := g.arr(st.heap, name, s)
				g.assignArr(st.heap, name, s, fmt.Sprintf("(store %s %s %s)", a, l.Idx, hv))
			}
			return true
		}
		g.storeLoc(st.heap, l, v.T)
	case *ssa.BinOp:
		return f.binop(x, st)
	case *ssa.Convert:
		return f.convert(x, st)
	case *ssa.ChangeType:
		v := f.val(x.X)
		r := Val{T: v.T, Ty: x.Type(), Loc: v.Loc}
		f.regs[x] = r
		if v.Loc == nil {
			if ci := f.closure[v.T]; ci != nil {
				f.closure[v.T] = ci
			}
		}
	case *ssa.ChangeInterface:
		v := f.val(x.X)
		f.regs[x] = Val{T: v.T, Ty: x.Type()}
	case *ssa.MakeInterface:
		v := f.val(x.X)
		var payload string
		switch sortOf(v.Ty) {
		case "Int":
			payload = v.T
		case "Str":
			payload = "(box!Str " + v.T + ")"
		case "Bool":
			payload = "(box!Bool " + v.T + ")"
		case "Slice":
			payload = "(box!Slice " + v.T + ")"
		case "Opq":
			payload = "(box!Opq " + v.T + ")"
		default:
			bn := "box!" + sortTag(sortOf(v.Ty))
			g.declareFun(bn, []string{sortOf(v.Ty)}, "Int")
			payload = "(" + bn + " " + v.T + ")"
		}
		f.setReg(x, fmt.Sprintf("(mk-iface %s %s)", g.typeTag(x.X.Type()), payload))
	case *ssa.TypeAssert:
		v := f.val(x.X)
		var ok, res string
		if _, isIface := x.AssertedType.Underlying().(*types.Interface); isIface {
			ok = fmt.Sprintf("(and (not (= (i-tag %s) 0)) (implements (i-tag %s) %s))", v.T, v.T, g.ifaceID(x.AssertedType))
			if types.Identical(x.AssertedType.Underlying(), x.X.Type().Underlying()) {
				ok = fmt.Sprintf("(not (= (i-tag %s) 0))", v.T)
			}
			res = v.T
		} else {
			ok = fmt.Sprintf("(= (i-tag %s) %s)", v.T, g.typeTag(x.AssertedType))
			switch sortOf(x.AssertedType) {
			case "Int":
				res = "(i-val " + v.T + ")"
			case "Str":
				res = "(unbox!Str (i-val " + v.T + "))"
			default:
				un := "unbox!" + sortTag(sortOf(x.AssertedType))
				g.declareFun(un, []string{"Int"}, sortOf(x.AssertedType))
				res = "(" + un + " (i-val " + v.T + "))"
			}
		}
		if x.CommaOk {
			n := f.regName(x)
			if g.declared[n+"_ok"] {
				n = g.fresh(n)
			}
			g.define(n+"_ok", "Bool", ok)
			g.define(n+"_v", sortOf(x.AssertedType), fmt.Sprintf("(ite %s %s %s)", n+"_ok", res, g.zeroOf(x.AssertedType)))
			f.regs[x] = Val{Ty: x.Type(), Tup: []Val{{T: n + "_v", Ty: x.AssertedType}, {T: n + "_ok", Ty: tyBool}}}
		} else {
			f.safety("typeassert", st, ok, x.Pos(), "type assertion may fail")
			f.setReg(x, res)
		}
	case *ssa.Extract:
		t := f.val(x.Tuple)
		if x.Index >= len(t.Tup) {
			g.errorf("extract from non-tuple %s in %s", x.Tuple.Name(), f.fn)
			f.havocReg(x, st)
			return true
		}
		f.regs[x] = t.Tup[x.Index]
	case *ssa.Slice:
		return f.sliceOp(x, st)
	case *ssa.MakeSlice:
		ln := f.val(x.Len)
		cp := f.val(x.Cap)
		f.safety("makeslice", st, fmt.Sprintf("(and (<= 0 %s) (<= %s %s))", ln.T, ln.T, cp.T), x.Pos(), "makeslice: len out of range")
		r := g.allocRef(st, "slice")
		et := x.Type().Underlying().(*types.Slice).Elem()
		s := sortOf(et)
		es := "(Array Int " + s + ")"
		an := elemArrName(s)
		a := g.arr(st.heap, an, es)
		g.assignArr(st.heap, an, es, fmt.Sprintf("(store %s %s ((as const %s) %s))", a, r, es, g.zeroOf(et)))
		rv := f.setReg(x, fmt.Sprintf("(mk-slice %s 0 %s %s)", r, ln.T, cp.T))
		g.markFresh(rv.T)
	case *ssa.MakeMap:
		r := g.allocRef(st, "map")
		mt := x.Type().Underlying().(*types.Map)
		has, _, ks, _ := mapArrNames(mt)
		hs := "(Array " + ks + " Bool)"
		a := g.arr(st.heap, has, hs)
		g.assignArr(st.heap, has, hs, fmt.Sprintf("(store %s %s ((as const %s) false))", a, r, hs))
		ml := g.arr(st.heap, "G!map!len", "Int")
		g.assignArr(st.heap, "G!map!len", "Int", fmt.Sprintf("(store %s %s 0)", ml, r))
		f.regs[x] = Val{T: r, Ty: x.Type()}
	case *ssa.MapUpdate:
		m := f.val(x.Map)
		k := f.val(x.Key)
		v := f.val(x.Value)
		f.safety("nilmap", st, fmt.Sprintf("(not (= %s 0))", m.T), x.Pos(), "assignment to entry in nil map")
		mt := m.Ty.Underlying().(*types.Map)
		has, get, ks, vs := mapArrNames(mt)
		hs, gs := "(Array "+ks+" Bool)", "(Array "+ks+" "+vs+")"
		ha := g.arr(st.heap, has, hs)
		ga := g.arr(st.heap, get, gs)
		ml := g.arr(st.heap, "G!map!len", "Int")
		g.noteWrite(has, m.T)
		g.noteWrite(get, m.T)
		g.noteWrite("G!map!len", m.T)
		g.assignArr(st.heap, "G!map!len", "Int", fmt.Sprintf("(store %[1]s %[2]s (ite (select (select %[3]s %[2]s) %[4]s) (select %[1]s %[2]s) (+ (select %[1]s %[2]s) 1)))", ml, m.T, ha, k.T))
		g.assignArr(st.heap, has, hs, fmt.Sprintf("(store %[1]s %[2]s (store (select %[1]s %[2]s) %[3]s true))", ha, m.T, k.T))
		g.assignArr(st.heap, get, gs, fmt.Sprintf("(store %[1]s %[2]s (store (select %[1]s %[2]s) %[3]s %[4]s))", ga, m.T, k.T, v.T))
	case *ssa.MakeChan:
		r := g.allocRef(st, "chan")
		sz := f.val(x.Size)
		for _, fld := range []struct{ n, s, v string }{{"G!chan!len", "Int", "0"}, {"G!chan!cap", "Int", sz.T}, {"G!chan!closed", "Bool", "false"}} {
			a := g.arr(st.heap, fld.n, fld.s)
			g.assignArr(st.heap, fld.n, fld.s, fmt.Sprintf("(store %s %s %s)", a, r, fld.v))
		}
		f.regs[x] = Val{T: r, Ty: x.Type()}
	case *ssa.Send:
		ch := f.val(x.Chan)
		cl := g.arr(st.heap, "G!chan!closed", "Bool")
		if f.g.W.closesChan(ch.Ty) {
			f.safety("sendclosed", st, fmt.Sprintf("(not (select %s %s))", cl, ch.T), x.Pos(), "send on closed channel")
		}
		f.chanHavocLen(st, ch.T)
	case *ssa.Select:
		return f.selectOp(x, st)
	case *ssa.Range:
		v := f.val(x.X)
		r := g.allocRef(st, "iter")
		a := g.arr(st.heap, "G!iter!pos", "Int")
		g.assignArr(st.heap, "G!iter!pos", "Int", fmt.Sprintf("(store %s %s 0)", a, r))
		if mt, ok := v.Ty.Underlying().(*types.Map); ok {
			ks := sortOf(mt.Key())
			vn := "G!iter!visited!" + sortTag(ks)
			vsrt := "(Array " + ks + " Bool)"
			va := g.arr(st.heap, vn, vsrt)
			g.assignArr(st.heap, vn, vsrt, fmt.Sprintf("(store %s %s ((as const %s) false))", va, r, vsrt))
		}
		f.regs[x] = Val{T: r, Ty: x.Type()}
		if f.rangeOf == nil {
			f.rangeOf = map[string]Val{}
		}
		f.rangeOf[r] = v
	case *ssa.Next:
		return f.nextOp(x, st)
	case *ssa.Call:
		res := f.doCall(&x.Call, x, st, x.Pos())
		if x.Type() != nil {
			if tup, ok := x.Type().(*types.Tuple); ok && tup.Len() == 0 {
				return st.reach != "false"
			}
			f.regs[x] = res
		}
		return st.reach != "false"
	case *ssa.Go:
		f.doGo(x, st)
	case *ssa.Defer:
		d := &deferred{call: &x.Call, pos: x.Pos()}
		d.fval = f.val(x.Call.Value)
		for _, a := range x.Call.Args {
			d.args = append(d.args, f.val(a))
		}
		nd := append([]*deferred{}, st.defers...)
		st.defers = append(nd, d)
	case *ssa.RunDefers:
		ds := st.defers
		// only the defers pushed by this frame
		for i := len(ds) - 1; i >= f.deferBase; i-- {
			f.runDeferred(ds[i], st)
		}
		st.defers = ds[:f.deferBase]
	case *ssa.MakeClosure:
		fn := x.Fn.(*ssa.Function)
		n := f.regName(x)
		if g.declared[n] {
			n = g.fresh(n)
		}
		g.declare(n, "Int")
		g.assumeUnder(st.reach, fmt.Sprintf("(not (= %s 0))", n))
		ci := &closureInfo{fn: fn}
		for _, b := range x.Bindings {
			ci.bindings = append(ci.bindings, f.val(b))
		}
		if f.closure == nil {
			f.closure = map[string]*closureInfo{}
		}
		f.closure[n] = ci
		f.regs[x] = Val{T: n, Ty: x.Type()}
	case *ssa.Panic:
		mayPanic := false
		if c := g.W.db.Contracts[g.W.relName(f.fn)]; c != nil && c.MayPanic {
			mayPanic = true
		}
		if !mayPanic {
			f.safety("panic", st, "false", x.Pos(), "explicit panic reachable")
		}
		return false
	case *ssa.If, *ssa.Jump:
		return true
	case *ssa.Return:
		ri := retInfo{reach: st.reach, heap: st.heap}
		for _, r := range x.Results {
			ri.vals = append(ri.vals, f.val(r))
		}
		f.rets = append(f.rets, ri)
		if f.top {
			f.checkPost(ri, x.Pos())
		}
		return true
	default:
		g.errorf("%s: unsupported instruction %T: %s", f.fn, in, in)
		if v, ok := in.(ssa.Value); ok {
			f.havocReg(v, st)
		}
	}
	return true
}

func (f *frame) chanHavocLen(st *State, ch string) {
	g := f.g
	g.noteWrite("G!chan!len", ch)
	ln := g.arr(st.heap, "G!chan!len", "Int")
	cp := g.arr(st.heap, "G!chan!cap", "Int")
	nl := g.fresh("chlen")
	g.declare(nl, "Int")
	g.assumeUnder(st.reach, fmt.Sprintf("(and (<= 0 %s) (<= %s (select %s %s)))", nl, nl, cp, ch))
	g.assignArr(st.heap, "G!chan!len", "Int", fmt.Sprintf("(store %s %s %s)", ln, ch, nl))
}

func (f *frame) unop(x *ssa.UnOp, st *State) bool {
	g := f.g
	v := f.val(x.X)
	switch x.Op {
	case token.MUL: // load
		l := g.locOfPointer(v)
		if l == nil {
			g.errorf("load through %s", v.Ty)
			f.havocReg(x, st)
			return true
		}
		if v.Loc == nil {
			f.safety("nil", st, fmt.Sprintf("(not (= %s 0))", v.T), x.Pos(), "nil pointer dereference")
		}
		if l.Struct {
			if sn, ok := g.sealed(l.Ty); ok {
				f.regs[x] = Val{T: fmt.Sprintf("(select %s %s)", g.arr(st.heap, sn, "Opq"), l.Idx), Ty: x.Type()}
				return true
			}
			// whole-struct load: opaque value
			n := g.fresh("structval")
			g.declare(n, "Opq")
			f.regs[x] = Val{T: n, Ty: x.Type()}
			return true
		}
		r := f.setReg(x, g.loadLoc(st.heap, l))
		g.assumeUnder(st.reach, g.typeInv(r.T, x.Type()))
		// references loaded from the heap are allocated (no dangling pointers)
		if sortOf(x.Type()) == "Int" {
			switch x.Type().Underlying().(type) {
			case *types.Pointer, *types.Map, *types.Chan:
				if l.Global == nil {
					g.assumeUnder(st.reach, fmt.Sprintf("(or (= %s 0) (select %s %s))", r.T, g.arr(st.heap, "alloc", "Bool"), r.T))
				}
			}
		}
		if _, isSlice := x.Type().Underlying().(*types.Slice); isSlice && l.Global == nil {
			// the backing array of a slice kept in the heap is an allocation unit that exists
			g.assumeUnder(st.reach, fmt.Sprintf("(or (= (s-arr %s) 0) (select %s (s-arr %s)))", r.T, g.arr(st.heap, "alloc", "Bool"), r.T))
		}
		if ci := f.closure[r.T]; ci == nil && l.Global == nil {
			// remember the field a function value was loaded from (for stubs keyed by field)
			if _, isSig := x.Type().Underlying().(*types.Signature); isSig {
				if f.fnField == nil {
					f.fnField = map[string]string{}
				}
				f.fnField[r.T] = strings.TrimPrefix(strings.TrimPrefix(l.Arr, "F!"), "G!")
			}
		}
	case token.NOT:
		f.setReg(x, not(v.T))
	case token.SUB:
		r := f.setReg(x, "(- "+v.T+")")
		f.overflow(x, r.T, st)
	case token.XOR:
		g.declareFun("bvnot", []string{"Int"}, "Int")
		f.setReg(x, "(bvnot "+v.T+")")
	case token.ARROW: // receive
		ch := v
		f.recvObligations(x, ch, st)
		et := ch.Ty.Underlying().(*types.Chan).Elem()
		n := f.regName(x)
		if g.declared[n] {
			n = g.fresh(n)
		}
		rv := g.havocVal(n+"_v", et, st.reach)
		f.chanHavocLen(st, ch.T)
		if x.CommaOk {
			g.declare(n+"_ok", "Bool")
			f.regs[x] = Val{Ty: x.Type(), Tup: []Val{rv, {T: n + "_ok", Ty: tyBool}}}
		} else {
			f.regs[x] = rv
		}
		// the value received is named resultof("recv", k, 1) in the clauses that follow (k-th receive of the function)
		if f.callResults == nil {
			f.callResults = map[string][]Val{}
		}
		f.callResults["recv"] = append(f.callResults["recv"], rv)
		f.recvHook(x, ch, rv, st)
		f.joinAtRecv(ch, rv, st)
	default:
		g.errorf("unsupported unary op %s", x.Op)
		f.havocReg(x, st)
	}
	return true
}

func (f *frame) overflow(v ssa.Value, term string, st *State) {
	if !f.g.checkOverflow {
		return
	}
	if lo, hi, ok := intRange(v.Type()); ok {
		f.safety("overflow", st, fmt.Sprintf("(inrange %s %s %s)", term, lo, hi), v.Pos(), "integer overflow")
	}
}

// isBytesToString: the value is a conversion string([]byte)
func isBytesToString(v ssa.Value) bool {
	cv, ok := v.(*ssa.Convert)
	if !ok {
		return false
	}
	_, fromSlice := cv.X.Type().Underlying().(*types.Slice)
	b, toStr := cv.Type().Underlying().(*types.Basic)
	return fromSlice && toStr && b.Info()&types.IsString != 0
}

func (f *frame) binop(x *ssa.BinOp, st *State) bool {
	g := f.g
	a := f.val(x.X)
	b := f.val(x.Y)
	s := sortOf(x.X.Type())
	switch x.Op {
	case token.ADD:
		if s == "Str" {
			f.setReg(x, g.sconcat(a.T, b.T))
			return true
		}
		r := f.setReg(x, fmt.Sprintf("(+ %s %s)", a.T, b.T))
		f.overflow(x, r.T, st)
	case token.SUB:
		r := f.setReg(x, fmt.Sprintf("(- %s %s)", a.T, b.T))
		f.overflow(x, r.T, st)
	case token.MUL:
		r := f.setReg(x, fmt.Sprintf("(* %s %s)", a.T, b.T))
		f.overflow(x, r.T, st)
	case token.QUO:
		f.safety("divzero", st, fmt.Sprintf("(not (= %s 0))", b.T), x.Pos(), "division by zero")
		// Go truncates toward zero
		f.setReg(x, fmt.Sprintf("(ite (>= %[1]s 0) (div %[1]s %[2]s) (- (div (- %[1]s) %[2]s)))", a.T, b.T))
	case token.REM:
		f.safety("divzero", st, fmt.Sprintf("(not (= %s 0))", b.T), x.Pos(), "division by zero")
		f.setReg(x, fmt.Sprintf("(ite (>= %[1]s 0) (mod %[1]s (ite (>= %[2]s 0) %[2]s (- %[2]s))) (- (mod (- %[1]s) (ite (>= %[2]s 0) %[2]s (- %[2]s)))))", a.T, b.T))
	case token.EQL, token.NEQ:
		var t string
		if s == "Slice" {
			// only comparison with nil is legal
			o := a
			if x.X.Type() != x.Y.Type() || isNilConst(x.X) {
				o = b
			}
			if isNilConst(x.Y) {
				o = a
			}
			t = fmt.Sprintf("(= (s-arr %s) 0)", o.T)
		} else if at, ok := x.X.Type().Underlying().(*types.Array); ok && at.Len() <= 16 {
			// Go compares arrays element by element (SMT array equality would also look outside the bounds)
			var cs []string
			for k := int64(0); k < at.Len(); k++ {
				cs = append(cs, fmt.Sprintf("(= (select %s %d) (select %s %d))", a.T, k, b.T, k))
			}
			t = and(cs...)
		} else {
			t = fmt.Sprintf("(= %s %s)", a.T, b.T)
			if s == "Str" && (isBytesToString(x.X) || isBytesToString(x.Y)) {
				// strings are determined by their octets (extensionality, instantiated for this comparison)
				d := g.fresh("strdiff")
				g.declare(d, "Int")
				g.assumeUnder(st.reach, fmt.Sprintf("(or (= %[1]s %[2]s) (not (= (slen %[1]s) (slen %[2]s))) (and (<= 0 %[3]s) (< %[3]s (slen %[1]s)) (not (= (sat %[1]s %[3]s) (sat %[2]s %[3]s)))))", a.T, b.T, d))
			}
		}
		if x.Op == token.NEQ {
			t = not(t)
		}
		f.setReg(x, t)
	case token.LSS, token.LEQ, token.GTR, token.GEQ:
		if s == "Str" {
			g.declareFun("strless", []string{"Str", "Str"}, "Bool")
			var t string
			switch x.Op {
			case token.LSS:
				t = fmt.Sprintf("(strless %s %s)", a.T, b.T)
			case token.GTR:
				t = fmt.Sprintf("(strless %s %s)", b.T, a.T)
			case token.LEQ:
				t = fmt.Sprintf("(not (strless %s %s))", b.T, a.T)
			default:
				t = fmt.Sprintf("(not (strless %s %s))", a.T, b.T)
			}
			f.setReg(x, t)
			return true
		}
		op := map[token.Token]string{token.LSS: "<", token.LEQ: "<=", token.GTR: ">", token.GEQ: ">="}[x.Op]
		f.setReg(x, fmt.Sprintf("(%s %s %s)", op, a.T, b.T))
	case token.AND, token.OR, token.XOR, token.SHL, token.SHR, token.AND_NOT:
		if s == "Bool" {
			g.errorf("bitwise op on bool")
		}
		fn := map[token.Token]string{token.AND: "bvand!", token.OR: "bvor!", token.XOR: "bvxor!", token.SHL: "bvshl!", token.SHR: "bvshr!", token.AND_NOT: "bvandnot!"}[x.Op]
		g.declareFun(fn, []string{"Int", "Int"}, "Int")
		r := f.setReg(x, fmt.Sprintf("(%s %s %s)", fn, a.T, b.T))
		g.assumeUnder(st.reach, g.typeInv(r.T, x.Type()))
	default:
		g.errorf("unsupported binary op %s", x.Op)
		f.havocReg(x, st)
	}
	return true
}

func isNilConst(v ssa.Value) bool {
	c, ok := v.(*ssa.Const)
	return ok && c.Value == nil
}

func (f *frame) convert(x *ssa.Convert, st *State) bool {
	g := f.g
	v := f.val(x.X)
	from, to := sortOf(x.X.Type()), sortOf(x.Type())
	switch {
	case from == "Int" && to == "Int":
		if _, _, isInt := intRange(x.Type()); isInt {
			if _, _, fromInt := intRange(x.X.Type()); fromInt {
				lo, hi, _ := intRange(x.Type())
				flo, fhi, _ := intRange(x.X.Type())
				if !(rangeWithin(flo, fhi, lo, hi)) && g.checkOverflow {
					f.safety("convert", st, fmt.Sprintf("(inrange %s %s %s)", v.T, lo, hi), x.Pos(), "integer conversion changes value")
				}
			}
		}
		f.regs[x] = Val{T: v.T, Ty: x.Type()}
	case from == "Int" && to == "Str":
		g.runeStrDecl()
		f.setReg(x, "(runeStr "+v.T+")")
	case from == "Str" && to == "Slice":
		g.declareFun("strBytes", []string{"Str"}, "Int")
		r := g.allocRef(st, "bytes")
		es := "(Array Int Int)"
		an := elemArrName("Int")
		na := g.fresh("bytesof")
		g.declare(na, es)
		g.assumeUnder(st.reach, fmt.Sprintf("(forall ((k Int)) (! (=> (and (<= 0 k) (< k (slen %[1]s))) (= (select %[2]s k) (sat %[1]s k))) :pattern ((select %[2]s k))))", v.T, na))
		a := g.arr(st.heap, an, es)
		g.assignArr(st.heap, an, es, fmt.Sprintf("(store %s %s %s)", a, r, na))
		rv := f.setReg(x, fmt.Sprintf("(mk-slice %s 0 (slen %s) (slen %s))", r, v.T, v.T))
		g.markFresh(rv.T)
	case from == "Slice" && to == "Str":
		n := f.regName(x)
		if g.declared[n] {
			n = g.fresh(n)
		}
		g.declare(n, "Str")
		ea := g.arr(st.heap, elemArrName("Int"), "(Array Int Int)")
		g.assumeUnder(st.reach, fmt.Sprintf("(= (slen %s) (s-len %s))", n, v.T))
		g.assumeUnder(st.reach, fmt.Sprintf("(forall ((k Int)) (! (=> (and (<= 0 k) (< k (s-len %[2]s))) (= (sat %[1]s k) (select (select %[3]s (s-arr %[2]s)) (slot (s-off %[2]s) k)))) :pattern ((sat %[1]s k))))", n, v.T, ea))
		f.regs[x] = Val{T: n, Ty: x.Type()}
	case from == to:
		f.regs[x] = Val{T: v.T, Ty: x.Type()}
	default:
		f.havocReg(x, st)
		g.note("conversion %s -> %s abstracted", x.X.Type(), x.Type())
	}
	return true
}

func (g *Gen) axiomOnce(key, ax string) {
	if g.assumed["ax:"+key] {
		return
	}
	g.assumed["ax:"+key] = true
	g.assume(ax)
}

func rangeWithin(flo, fhi, lo, hi string) bool {
	p := func(s string) (neg bool, mag string) {
		if strings.HasPrefix(s, "(- ") {
			return true, strings.TrimSuffix(strings.TrimPrefix(s, "(- "), ")")
		}
		return false, s
	}
	cmp := func(a, b string) int { // compare signed decimal strings in smt form
		an, am := p(a)
		bn, bm := p(b)
		if an != bn {
			if an {
				return -1
			}
			return 1
		}
		c := 0
		if len(am) != len(bm) {
			if len(am) < len(bm) {
				c = -1
			} else {
				c = 1
			}
		} else {
			c = strings.Compare(am, bm)
		}
		if an {
			return -c
		}
		return c
	}
	return cmp(flo, lo) >= 0 && cmp(fhi, hi) <= 0
}

func (f *frame) sliceOp(x *ssa.Slice, st *State) bool {
	g := f.g
	base := f.val(x.X)
	lo := "0"
	if x.Low != nil {
		lo = f.val(x.Low).T
	}
	switch u := base.Ty.Underlying().(type) {
	case *types.Basic: // string
		hi := "(slen " + base.T + ")"
		if x.High != nil {
			hi = f.val(x.High).T
		}
		f.safety("slice", st, fmt.Sprintf("(and (<= 0 %s) (<= %s %s) (<= %s (slen %s)))", lo, lo, hi, hi, base.T), x.Pos(), "slice bounds out of range")
		if lo == "0" && x.High == nil {
			f.regs[x] = Val{T: base.T, Ty: x.Type()}
		} else {
			f.setReg(x, g.substr(base.T, lo, hi))
		}
	case *types.Slice:
		hi := "(s-len " + base.T + ")"
		if x.High != nil {
			hi = f.val(x.High).T
		}
		mx := "(s-cap " + base.T + ")"
		if x.Max != nil {
			mx = f.val(x.Max).T
			f.safety("slice", st, fmt.Sprintf("(<= %s (s-cap %s))", mx, base.T), x.Pos(), "slice bounds out of range")
		}
		f.safety("slice", st, fmt.Sprintf("(and (<= 0 %s) (<= %s %s) (<= %s %s))", lo, lo, hi, hi, mx), x.Pos(), "slice bounds out of range")
		rv := f.setReg(x, fmt.Sprintf("(mk-slice (s-arr %[1]s) (+ (s-off %[1]s) %[2]s) (- %[3]s %[2]s) (- %[4]s %[2]s))", base.T, lo, hi, mx))
		if g.isFresh(base.T) {
			g.markFresh(rv.T)
		}
	case *types.Pointer: // pointer to array
		at := u.Elem().Underlying().(*types.Array)
		n := fmt.Sprint(at.Len())
		hi := n
		if x.High != nil {
			hi = f.val(x.High).T
		}
		f.safety("slice", st, fmt.Sprintf("(and (<= 0 %s) (<= %s %s) (<= %s %s))", lo, lo, hi, hi, n), x.Pos(), "slice bounds out of range")
		l := g.locOfPointer(base)
		if l.Arr != elemArrName(sortOf(at.Elem())) {
			g.errorf("slicing an array that is not a plain allocation (unsupported)")
		}
		rv := f.setReg(x, fmt.Sprintf("(mk-slice %[1]s %[2]s (- %[3]s %[2]s) (- %[4]s %[2]s))", l.Idx, lo, hi, n))
		if g.isFresh(l.Idx) {
			g.markFresh(rv.T)
		}
		f.ssetSliceLit(x, rv)
	default:
		g.errorf("slice of %s", base.Ty)
		f.havocReg(x, st)
	}
	return true
}

func (f *frame) nextOp(x *ssa.Next, st *State) bool {
	g := f.g
	it := f.val(x.Iter)
	pa := g.arr(st.heap, "G!iter!pos", "Int")
	pos := fmt.Sprintf("(select %s %s)", pa, it.T)
	n := f.regName(x)
	if g.declared[n+"_ok"] {
		n = g.fresh(n)
	}
	// find the ranged-over value: Range instruction operand
	rng, _ := x.Iter.(*ssa.Range)
	if rng == nil {
		g.errorf("next on unknown iterator")
		f.havocReg(x, st)
		return true
	}
	src := f.val(rng.X)
	if x.IsString {
		g.declareFun("runeAt", []string{"Str", "Int"}, "Int")
		g.declareFun("runeLen", []string{"Str", "Int"}, "Int")
		g.axiomOnce("runeAt", "(forall ((s Str) (i Int)) (! (and (=> (< (sat s i) 128) (and (= (runeAt s i) (sat s i)) (= (runeLen s i) 1))) (=> (>= (sat s i) 128) (and (>= (runeAt s i) 128) (<= (runeAt s i) 1114111) (<= 1 (runeLen s i)) (<= (runeLen s i) 4) (<= (+ i (runeLen s i)) (slen s))))) :pattern ((runeAt s i))))")
		g.axiomOnce("runeLen", "(forall ((s Str) (i Int)) (! (and (<= 1 (runeLen s i)) (<= (runeLen s i) 4)) :pattern ((runeLen s i))))")
		g.define(n+"_ok", "Bool", fmt.Sprintf("(< %s (slen %s))", pos, src.T))
		g.define(n+"_k", "Int", pos)
		g.define(n+"_v", "Int", fmt.Sprintf("(runeAt %s %s)", src.T, pos))
		g.assignArr(st.heap, "G!iter!pos", "Int", fmt.Sprintf("(store %s %s (ite %s (+ %s (runeLen %s %s)) %s))", pa, it.T, n+"_ok", pos, src.T, pos, pos))
		f.regs[x] = Val{Ty: x.Type(), Tup: []Val{{T: n + "_ok", Ty: tyBool}, {T: n + "_k", Ty: tyInt}, {T: n + "_v", Ty: types.Typ[types.Int32]}}}
		return true
	}
	// map iteration: an arbitrary not-yet-visited key
	mt := src.Ty.Underlying().(*types.Map)
	has, get, ks, vs := mapArrNames(mt)
	vn := "G!iter!visited!" + sortTag(ks)
	vsrt := "(Array " + ks + " Bool)"
	va := g.arr(st.heap, vn, vsrt)
	ha := g.arr(st.heap, has, "(Array "+ks+" Bool)")
	ga := g.arr(st.heap, get, "(Array "+ks+" "+vs+")")
	g.declare(n+"_ok", "Bool")
	g.declare(n+"_k", ks)
	visited := fmt.Sprintf("(select %s %s)", va, it.T)
	hasM := fmt.Sprintf("(select %s %s)", ha, src.T)
	// ok => key is in the map and not yet visited ; !ok => every key of the map has been visited
	g.assumeUnder(st.reach, fmt.Sprintf("(=> %s (and (not (= %s 0)) (select %s %s) (not (select %s %s))))", n+"_ok", src.T, hasM, n+"_k", visited, n+"_k"))
	g.assumeUnder(st.reach, fmt.Sprintf("(=> (not %s) (forall ((k %s)) (! (=> (and (not (= %s 0)) (select %s k)) (select %s k)) :pattern ((select %s k)))))", n+"_ok", ks, src.T, hasM, visited, visited))
	g.define(n+"_v", vs, fmt.Sprintf("(select (select %s %s) %s)", ga, src.T, n+"_k"))
	g.assumeUnder(st.reach, g.typeInv(n+"_v", mt.Elem()))
	g.assignArr(st.heap, vn, vsrt, fmt.Sprintf("(store %s %s (ite %s (store %s %s true) %s))", va, it.T, n+"_ok", visited, n+"_k", visited))
	f.regs[x] = Val{Ty: x.Type(), Tup: []Val{{T: n + "_ok", Ty: tyBool}, {T: n + "_k", Ty: mt.Key()}, {T: n + "_v", Ty: mt.Elem()}}}
	return true
}

func (f *frame) selectOp(x *ssa.Select, st *State) bool {
	g := f.g
	n := f.regName(x)
	if g.declared[n+"_i"] {
		n = g.fresh(n)
	}
	g.declare(n+"_i", "Int")
	lo := 0
	if !x.Blocking {
		lo = -1
	}
	g.assumeUnder(st.reach, fmt.Sprintf("(and (<= %d %s) (< %s %d))", lo, n+"_i", n+"_i", len(x.States)))
	ln := g.arr(st.heap, "G!chan!len", "Int")
	cp := g.arr(st.heap, "G!chan!cap", "Int")
	cl := g.arr(st.heap, "G!chan!closed", "Bool")
	tup := []Val{{T: n + "_i", Ty: tyInt}}
	g.declare(n+"_rok", "Bool")
	tup = append(tup, Val{T: n + "_rok", Ty: tyBool})
	newLen := ln
	var canAny []string
	for i, s := range x.States {
		ch := f.val(s.Chan)
		chosen := fmt.Sprintf("(= %s %d)", n+"_i", i)
		if s.Dir == types.SendOnly {
			can := fmt.Sprintf("(or (< (select %s %s) (select %s %s)) (= (select %s %s) 0))", ln, ch.T, cp, ch.T, cp, ch.T)
			canAny = append(canAny, can)
			g.assumeUnder(st.reach, fmt.Sprintf("(=> %s %s)", chosen, can))
			if f.g.W.closesChan(ch.Ty) {
				f.safety("sendclosed", st, fmt.Sprintf("(=> %s (not (select %s %s)))", chosen, cl, ch.T), x.Pos(), "send on closed channel")
			}
			newLen = fmt.Sprintf("(ite %s (store %s %s (+ (select %s %s) 1)) %s)", chosen, ln, ch.T, ln, ch.T, newLen)
		} else {
			can := fmt.Sprintf("(or (select %s %s) (> (select %s %s) 0))", cl, ch.T, ln, ch.T)
			canAny = append(canAny, can)
			g.assumeUnder(st.reach, fmt.Sprintf("(=> %s %s)", chosen, can))
			newLen = fmt.Sprintf("(ite (and %s (> (select %s %s) 0)) (store %s %s (- (select %s %s) 1)) %s)", chosen, ln, ch.T, ln, ch.T, ln, ch.T, newLen)
			et := s.Chan.Type().Underlying().(*types.Chan).Elem()
			rv := g.havocVal(fmt.Sprintf("%s_r%d", n, i), et, st.reach)
			tup = append(tup, rv)
		}
	}
	if !x.Blocking {
		// default is taken only if no case is ready
		g.assumeUnder(st.reach, fmt.Sprintf("(=> (= %s (- 1)) (not %s))", n+"_i", or(canAny...)))
	}
	for _, s := range x.States {
		g.noteWrite("G!chan!len", f.val(s.Chan).T)
	}
	g.assignArr(st.heap, "G!chan!len", "Int", newLen)
	f.regs[x] = Val{Ty: x.Type(), Tup: tup}
	return true
}

// recvObligations: contract clauses `recv N:` are proved at the N-th receive of the function (SSA order).
func (f *frame) recvObligations(x *ssa.UnOp, ch Val, st *State) {
	g := f.g
	var con *Contract
	if f.top {
		con = f.con
	} else {
		con = g.W.db.Contracts[g.W.relName(f.fn)]
	}
	if con == nil || len(con.RecvObl) == 0 {
		return
	}
	n := 0
	for _, b := range f.fn.Blocks {
		for _, in := range b.Instrs {
			if u, ok := in.(*ssa.UnOp); ok && u.Op == token.ARROW {
				n++
				if u == x {
					goto found
				}
			}
		}
	}
found:
	env := &Env{g: g, vars: map[string]Val{"$ch": ch}, heap: st.heap, old: f.entry}
	f.bindParams(env)
	env.lookup = f.localsAt(f.curBlock)
	for i, cl := range con.RecvObl[n] {
		t, err := g.trBool(cl.E, env)
		name := f.oblName(fmt.Sprintf("recv%d:%s", n, clauseLabel(cl, i)))
		if err != nil {
			g.errorf("%s: %v", name, err)
			t = "false"
		}
		g.addObl("call-pre", name, f.clauseProps(cl), st.reach, t, nil, cl.Src, x.Pos())
	}
	if f.recvSeen == nil {
		f.recvSeen = map[int]bool{}
	}
	f.recvSeen[n] = true
}

// recvHook: facts assumed of received values (contract clause `onrecv`, listed as an assumption).
func (f *frame) recvHook(x *ssa.UnOp, ch Val, rv Val, st *State) {
	g := f.g
	var con *Contract
	if f.top {
		con = f.con
	} else {
		con = g.W.db.Contracts[g.W.relName(f.fn)]
	}
	if con == nil || len(con.OnRecv) == 0 || !types.Identical(rv.Ty, tyErr) {
		return
	}
	env := &Env{g: g, vars: map[string]Val{"$v": rv}, heap: st.heap, old: f.entry}
	f.bindParams(env)
	for _, cl := range con.OnRecv {
		t, err := g.trBool(cl.E, env)
		if err != nil {
			g.errorf("%s: onrecv %s: %v", con.Name, cl.Src, err)
			continue
		}
		g.assumeUnder(st.reach, t)
		g.note("assumed of values received from channels in %s: %s", con.Name, cl.Src)
	}
}
