package main

// Symbolic execution of SSA functions into a passive (single-assignment) SMT encoding.
// Loops are cut at their headers (invariants from the contract); joins are merged with ite.

import (
	"fmt"
	"go/constant"
	"go/token"
	"go/types"
	"sort"
	"strings"

	"golang.org/x/tools/go/ssa"
)

type State struct {
	reach  string
	heap   *Heap
	defers []*deferred
}

type deferred struct {
	call *ssa.CallCommon
	args []Val // evaluated at defer time (receiver/closure first for invoke)
	fval Val
	pos  token.Pos
}

type loopInfo struct {
	header  *ssa.BasicBlock
	ordinal int
	back    map[int]bool // pred block indices that are back edges
	body    map[int]bool
	spec    *LoopSpec
	phiCur  map[*ssa.Phi]Val // current binding of header phis (after havoc)
	rangeIt *Val
	headHeap *Heap
	frameArrs []string
	freshPhis map[*ssa.Phi]bool
}

type retInfo struct {
	reach string
	heap  *Heap
	vals  []Val
}

type frame struct {
	g       *Gen
	fn      *ssa.Function
	inst    int
	regs    map[ssa.Value]Val
	depth   int
	top     bool
	con     *Contract
	params  []Val
	entry   *Heap // heap at function entry (for old())
	out     map[int]*State
	loops   map[int]*loopInfo
	rets    []retInfo
	path    string // inline path prefix for obligation names
	closure map[string]*closureInfo
	props   []string
	freeVars []Val
	callCtr map[string]int
	safeCtr map[string]int
	stack   []*ssa.Function
	curBlock *ssa.BasicBlock
	safeSeen map[string][]*ssa.BasicBlock
	fnField map[string]string
	rangeOf map[string]Val
	deferBase int
	mods    map[string][]modLoc
	beforeCtr map[string]int
	topEntry *Heap
	goSites map[string]*goSite
	recvSeen map[int]bool
	callResults map[string][]Val // results of contracted calls, per callee in execution order of the encoding
	sset    map[string]map[string]string // string-slice value -> element key -> membership condition (see sset.go)
	ssetVals map[string]map[string][]string // ... -> element key -> the values stored under that key
	strSliceWritten *bool
}

type closureInfo struct {
	fn       *ssa.Function
	bindings []Val
}

func constInt(v constant.Value) (int64, bool) {
	if v == nil {
		return 0, false
	}
	if v.Kind() == constant.Int {
		if i, ok := constant.Int64Val(v); ok {
			return i, true
		}
		if u, ok := constant.Uint64Val(v); ok {
			return int64(u), false
		}
	}
	return 0, false
}

func constString(v constant.Value) string {
	if v != nil && v.Kind() == constant.String {
		return constant.StringVal(v)
	}
	return ""
}

func (f *frame) regName(v ssa.Value) string {
	return fmt.Sprintf("v%d_%s", f.inst, strings.NewReplacer("$", "_", ".", "_").Replace(v.Name()))
}

// val returns the symbolic value of an SSA value.
func (f *frame) val(v ssa.Value) Val {
	g := f.g
	switch x := v.(type) {
	case *ssa.Const:
		t := x.Type()
		if x.Value == nil { // zero value / nil
			return Val{T: g.zeroOf(t), Ty: t, SSA: x}
		}
		switch sortOf(t) {
		case "Int":
			if i, ok := constInt(x.Value); ok {
				return Val{T: smtInt(i), Ty: t}
			}
			return Val{T: x.Value.ExactString(), Ty: t} // large unsigned constant
		case "Bool":
			if constant.BoolVal(x.Value) {
				return Val{T: "true", Ty: t}
			}
			return Val{T: "false", Ty: t}
		case "Str":
			return Val{T: g.strLit(constant.StringVal(x.Value)), Ty: t, SSA: x}
		}
		n := g.fresh("const")
		g.declare(n, sortOf(t))
		return Val{T: n, Ty: t}
	case *ssa.Global:
		tv := x.Object().(*types.Var)
		gv := g.globalVal(x.Pkg.Pkg, tv)
		// the Global itself is the address; loads go through Loc.Global
		return Val{T: "0", Ty: x.Type(), Loc: &Loc{Global: x, Ty: tv.Type(), Sort: sortOf(tv.Type()), Arr: gv.T}}
	case *ssa.Function:
		n := "fn!" + sanitize(f.g.W.relName(x))
		g.declare(n, "Int")
		if f.closure == nil {
			f.closure = map[string]*closureInfo{}
		}
		f.closure[n] = &closureInfo{fn: x}
		return Val{T: n, Ty: x.Type()}
	case *ssa.Builtin:
		return Val{T: "0", Ty: x.Type()}
	}
	if r, ok := f.regs[v]; ok {
		if r.SSA == nil {
			r.SSA = v
		}
		return r
	}
	// value not yet defined (can happen for phi operands from unreachable blocks)
	n := g.fresh("undef")
	s := sortOf(v.Type())
	if s == "TUPLE" {
		return Val{Ty: v.Type()}
	}
	g.declare(n, s)
	return Val{T: n, Ty: v.Type()}
}

func sanitize(s string) string {
	s = strings.NewReplacer("(", "", ")", "", "*", "P").Replace(s)
	var sb strings.Builder
	for _, r := range s {
		if r >= 'a' && r <= 'z' || r >= 'A' && r <= 'Z' || r >= '0' && r <= '9' || r == '_' || r == '.' || r == '!' {
			sb.WriteRune(r)
		} else {
			sb.WriteByte('_')
		}
	}
	return sb.String()
}

// setReg defines register v as term (define-fun) and records it.
func (f *frame) setReg(v ssa.Value, term string) Val {
	s := sortOf(v.Type())
	n := f.regName(v)
	if f.g.declared[n] {
		n = f.g.fresh(n)
	}
	f.g.define(n, s, term)
	r := Val{T: n, Ty: v.Type()}
	f.regs[v] = r
	return r
}

// havocReg declares register v as an unconstrained constant with its typing invariant.
func (f *frame) havocReg(v ssa.Value, st *State) Val {
	n := f.regName(v)
	if f.g.declared[n] {
		n = f.g.fresh(n)
	}
	r := f.g.havocVal(n, v.Type(), st.reach)
	f.regs[v] = r
	return r
}

func (g *Gen) havocVal(name string, t types.Type, reach string) Val {
	if tup, ok := t.(*types.Tuple); ok {
		var vs []Val
		for i := 0; i < tup.Len(); i++ {
			vs = append(vs, g.havocVal(fmt.Sprintf("%s_%d", name, i), tup.At(i).Type(), reach))
		}
		return Val{Tup: vs, Ty: t}
	}
	g.declare(name, sortOf(t))
	g.assumeUnder(reach, g.typeInv(name, t))
	return Val{T: name, Ty: t}
}

// ---------- loops ----------

func (f *frame) findLoops() {
	f.loops = map[int]*loopInfo{}
	fn := f.fn
	for _, b := range fn.Blocks {
		for _, p := range b.Preds {
			if b.Dominates(p) {
				li := f.loops[b.Index]
				if li == nil {
					li = &loopInfo{header: b, back: map[int]bool{}, body: map[int]bool{b.Index: true}}
					f.loops[b.Index] = li
				}
				li.back[p.Index] = true
				// natural loop body: nodes that reach p without passing through header
				stack := []*ssa.BasicBlock{p}
				for len(stack) > 0 {
					n := stack[len(stack)-1]
					stack = stack[:len(stack)-1]
					if li.body[n.Index] {
						continue
					}
					li.body[n.Index] = true
					for _, q := range n.Preds {
						stack = append(stack, q)
					}
				}
			}
		}
	}
	var hs []int
	for h := range f.loops {
		hs = append(hs, h)
	}
	sort.Ints(hs)
	var con *Contract
	if f.top {
		con = f.con
	} else {
		con = f.g.W.db.Contracts[f.g.W.relName(fn)]
	}
	for i, h := range hs {
		f.loops[h].ordinal = i + 1
		if con != nil {
			f.loops[h].spec = con.Loops[i+1]
		}
	}
}

func (f *frame) rpo() []*ssa.BasicBlock {
	seen := map[int]bool{}
	var post []*ssa.BasicBlock
	var visit func(b *ssa.BasicBlock)
	visit = func(b *ssa.BasicBlock) {
		seen[b.Index] = true
		for _, s := range b.Succs {
			if li := f.loops[s.Index]; li != nil && li.back[b.Index] {
				continue // back edge
			}
			if !seen[s.Index] {
				visit(s)
			}
		}
		post = append(post, b)
	}
	visit(f.fn.Blocks[0])
	for i, j := 0, len(post)-1; i < j; i, j = i+1, j-1 {
		post[i], post[j] = post[j], post[i]
	}
	return post
}

// edgeCond: condition under which control flows from the end of block p to successor index si.
func (f *frame) edgeCond(p *ssa.BasicBlock, si int) string {
	st := f.out[p.Index]
	if st == nil {
		return "false"
	}
	last := p.Instrs[len(p.Instrs)-1]
	if ifi, ok := last.(*ssa.If); ok {
		c := f.val(ifi.Cond).T
		if si == 0 {
			return and(st.reach, c)
		}
		return and(st.reach, not(c))
	}
	return st.reach
}

func succIndex(p, b *ssa.BasicBlock, nth int) int {
	k := 0
	for i, s := range p.Succs {
		if s == b {
			if k == nth {
				return i
			}
			k++
		}
	}
	return -1
}

// loopWrites computes the set of heap arrays possibly written inside the loop body.
func (f *frame) loopWrites(li *loopInfo) map[string]string {
	ws := map[string]string{}
	for idx := range li.body {
		f.g.blockWrites(f.fn.Blocks[idx], ws, 0, map[*ssa.Function]bool{})
	}
	return ws
}

// lookupLocal resolves a source-level local variable name as seen from block `at`:
// a header phi of the loop, a closure free variable, or the latest assignment (DebugRef)
// in a block that dominates `at`.
func (f *frame) lookupLocal(li *loopInfo, phiVals map[*ssa.Phi]Val, at *ssa.BasicBlock) func(string) (Val, bool) {
	return func(name string) (Val, bool) {
		if li != nil {
			for _, in := range li.header.Instrs {
				if phi, ok := in.(*ssa.Phi); ok {
					if phi.Comment == name {
						if v, ok := phiVals[phi]; ok {
							return v, true
						}
					}
				} else {
					break
				}
			}
		}
		for i, fv := range f.fn.FreeVars {
			if fv.Name() == name && i < len(f.freeVars) {
				return f.freeVars[i], true
			}
		}
		depth := func(b *ssa.BasicBlock) int {
			d := 0
			for x := b; x != nil; x = x.Idom() {
				d++
			}
			return d
		}
		var found *Val
		best := -1
		foundConst := false
		for _, b := range f.fn.Blocks {
			for _, in := range b.Instrs {
				dr, ok := in.(*ssa.DebugRef)
				if !ok {
					continue
				}
				obj := dr.Object()
				if obj == nil || obj.Name() != name {
					continue
				}
				if tv, isVar := obj.(*types.Var); !isVar || tv.IsField() {
					continue
				}
				if dr.IsAddr {
					// an address-taken local: the name denotes the variable itself (struct: its reference;
					// otherwise the current content of its cell)
					if rv, have := f.regs[dr.X]; have {
						if ins, isInstr := dr.X.(ssa.Instruction); isInstr && ins.Block().Dominates(at) {
							rr := rv
							rr.Cell = isCellType(dr.X.Type())
							rr.Loc = nil
							return rr, true
						}
					}
					continue
				}
				// the value this occurrence of the variable denotes, and where that value is defined
				var r Val
				var def *ssa.BasicBlock
				isConst := false
				switch x := dr.X.(type) {
				case *ssa.Const:
					// (the builder records the declaration itself with the zero value)
					if !b.Dominates(at) {
						continue
					}
					r, def, isConst = f.val(x), b, true
				case *ssa.Parameter:
					r, def = f.val(x), f.fn.Blocks[0]
				default:
					ins, isInstr := dr.X.(ssa.Instruction)
					rv, have := f.regs[dr.X]
					if !isInstr || !have {
						continue
					}
					def = ins.Block()
					if !def.Dominates(at) {
						continue
					}
					if li != nil && def == li.header && at == li.header {
						if _, isPhi := dr.X.(*ssa.Phi); !isPhi {
							continue
						}
					}
					// a value defined inside a loop that does not contain `at` is not the variable's current value
					r = rv
				}
				d := depth(def)
				if found == nil || (foundConst && !isConst) || (foundConst == isConst && d >= best) {
					if found != nil && !foundConst && isConst {
						continue
					}
					best = d
					rr := r
					found = &rr
					foundConst = isConst
				}
			}
		}
		if found != nil {
			return *found, true
		}
		return Val{}, false
	}
}

// localsAt resolves local variable names at a program point: header phis of the enclosing
// loops (innermost first), then the latest dominating assignment.
func (f *frame) localsAt(b *ssa.BasicBlock) func(string) (Val, bool) {
	var encl []*loopInfo
	for _, li := range f.loops {
		if li.body[b.Index] && li.phiCur != nil {
			encl = append(encl, li)
		}
	}
	sort.Slice(encl, func(i, j int) bool { return len(encl[i].body) < len(encl[j].body) })
	return func(name string) (Val, bool) {
		for _, li := range encl {
			for _, in := range li.header.Instrs {
				if phi, ok := in.(*ssa.Phi); ok {
					if phi.Comment == name {
						if v, ok := li.phiCur[phi]; ok {
							return v, true
						}
					}
				} else {
					break
				}
			}
		}
		if name == "rangeindex" {
			// after a range loop: the index at the last evaluation of the loop head (the head dominates
			// this point, so that is the value the register holds here); the closest such loop
			var best *loopInfo
			for _, li := range f.loops {
				if li.phiCur == nil || li.body[b.Index] || !li.header.Dominates(b) {
					continue
				}
				if _, ok := phiNamed(li, name); !ok {
					continue
				}
				if best == nil || best.header.Dominates(li.header) {
					best = li
				}
			}
			if best != nil {
				phi, _ := phiNamed(best, name)
				if v, ok := best.phiCur[phi]; ok {
					return v, true
				}
			}
		}
		return f.lookupLocal(nil, nil, b)(name)
	}
}

func (f *frame) invEnv(li *loopInfo, heap *Heap, phiVals map[*ssa.Phi]Val, at *ssa.BasicBlock) *Env {
	env := &Env{g: f.g, vars: map[string]Val{}, heap: heap, old: f.entry, callResults: f.callResults, headHeap: li.headHeap}
	f.bindParams(env)
	// current values of loop variables shadow the (entry) parameter values; name0 / old(name) give the entry value
	for _, in := range li.header.Instrs {
		if phi, ok := in.(*ssa.Phi); ok {
			if v, ok := phiVals[phi]; ok && phi.Comment != "" {
				env.vars[phi.Comment] = v
			}
		} else {
			break
		}
	}
	env.headVars = map[string]Val{}
	for _, in := range li.header.Instrs {
		if phi, ok := in.(*ssa.Phi); ok {
			if v, ok := li.phiCur[phi]; ok && phi.Comment != "" {
				env.headVars[phi.Comment] = v
			}
		} else {
			break
		}
	}
	env.lookup = f.lookupLocal(li, phiVals, at)
	// a parameter that was reassigned before the loop: its name means the current value (name0 the entry value)
	for _, p := range f.fn.Params {
		if v, ok := env.lookup(p.Name()); ok && v.T != env.vars[p.Name()].T {
			if _, isPhi := phiNamed(li, p.Name()); !isPhi {
				env.vars[p.Name()] = v
			}
		}
	}
	if li.rangeIt != nil {
		env.vars["$itpos"] = *li.rangeIt
	} else {
		// an inner loop of a range loop sees the iterator of the enclosing one
		var best *loopInfo
		for _, o := range f.loops {
			if o != li && o.rangeIt != nil && o.body[li.header.Index] {
				if best == nil || len(o.body) < len(best.body) {
					best = o
				}
			}
		}
		if best != nil {
			env.vars["$itpos"] = *best.rangeIt
		}
	}
	return env
}

func phiNamed(li *loopInfo, name string) (*ssa.Phi, bool) {
	for _, in := range li.header.Instrs {
		if phi, ok := in.(*ssa.Phi); ok {
			if phi.Comment == name {
				return phi, true
			}
		} else {
			break
		}
	}
	return nil, false
}

func (f *frame) bindParams(env *Env) {
	if env.entry == nil {
		env.entry = map[string]Val{}
	}
	for i, p := range f.fn.Params {
		if i < len(f.params) {
			env.vars[p.Name()] = f.params[i]
			env.entry[p.Name()] = f.params[i]
		}
	}
	if f.con != nil && f.top {
		for i, n := range f.con.Params {
			if i < len(f.params) {
				env.vars[n] = f.params[i]
				env.entry[n] = f.params[i]
			}
		}
	}
	for i, fv := range f.fn.FreeVars {
		if i < len(f.freeVars) {
			if _, clash := env.vars[fv.Name()]; !clash {
				v := f.freeVars[i]
				v.Cell = isCellType(fv.Type())
				env.vars[fv.Name()] = v
				env.entry[fv.Name()] = v
			}
		}
	}
}

// entry0: heap at entry of the top-level function (alloc there is the reference point for freshness)
func (f *frame) entry0() *Heap {
	if f.topEntry != nil {
		return f.topEntry
	}
	return f.entry
}

func (f *frame) clauseProps(cl *Clause) []string {
	if len(cl.Props) > 0 {
		return cl.Props
	}
	return f.props
}

func (f *frame) oblName(s string) string { return f.path + s }

// ---------- main execution ----------

// exec runs the function body from state st0 with the given arguments; returns merged exit state and results.
func (f *frame) exec(st0 *State) (*State, []Val) {
	g := f.g
	fn := f.fn
	if len(fn.Blocks) == 0 {
		g.errorf("function %s has no body", fn)
		return st0, nil
	}
	f.findLoops()
	f.out = map[int]*State{}
	f.entry = st0.heap.clone()
	for i, p := range fn.Params {
		f.regs[p] = f.params[i]
	}
	for i, fv := range fn.FreeVars {
		if i < len(f.freeVars) {
			f.regs[fv] = f.freeVars[i]
		}
	}
	for _, b := range f.rpo() {
		var st *State
		li := f.loops[b.Index]
		if b.Index == 0 {
			st = &State{reach: st0.reach, heap: st0.heap.clone(), defers: st0.defers}
			if li != nil {
				g.errorf("%s: entry block is a loop header (unsupported)", fn)
			}
		} else {
			var conds []string
			var heaps []*Heap
			var preds []*ssa.BasicBlock
			var predIdx []int
			seenPred := map[int]int{}
			var defers []*deferred
			first := true
			for pi, p := range b.Preds {
				if li != nil && li.back[p.Index] {
					continue
				}
				ps := f.out[p.Index]
				if ps == nil {
					continue
				}
				nth := seenPred[p.Index]
				seenPred[p.Index]++
				si := succIndex(p, b, nth)
				c := f.edgeCond(p, si)
				if c == "false" {
					continue
				}
				en := fmt.Sprintf("E%d_%d_%d_%d", f.inst, p.Index, b.Index, nth)
				if g.declared[en] {
					en = g.fresh(en)
				}
				g.define(en, "Bool", c)
				conds = append(conds, en)
				heaps = append(heaps, ps.heap)
				preds = append(preds, p)
				predIdx = append(predIdx, pi)
				if first {
					defers = ps.defers
					first = false
				} else if len(defers) != len(ps.defers) {
					g.errorf("%s: defer stack differs at join block %d (unsupported)", fn, b.Index)
				}
			}
			if len(conds) == 0 {
				continue // unreachable
			}
			rn := fmt.Sprintf("R%d_%d", f.inst, b.Index)
			if g.declared[rn] {
				rn = g.fresh(rn)
			}
			g.define(rn, "Bool", or(conds...))
			st = &State{reach: rn, heap: g.mergeHeaps(conds, heaps), defers: defers}
			// phis
			phiVals := map[*ssa.Phi]Val{}
			for _, in := range b.Instrs {
				phi, ok := in.(*ssa.Phi)
				if !ok {
					break
				}
				var vals []string
				for _, pi := range predIdx {
					vals = append(vals, f.val(phi.Edges[pi]).T)
				}
				if sortOf(phi.Type()) == "TUPLE" {
					g.errorf("%s: tuple phi unsupported", fn)
					continue
				}
				v := f.setReg(phi, iteChain(conds, vals))
				phiVals[phi] = v
				f.ssetPhi(phi, v, conds, vals)
				allFresh := len(vals) > 0
				for _, t := range vals {
					if !g.isFresh(t) {
						allFresh = false
					}
				}
				if allFresh {
					g.markFresh(v.T)
				}
			}
			if li != nil {
				f.loopHeader(li, st, phiVals)
			}
		}
		g.comment("block %d (%s) of %s#%d", b.Index, b.Comment, g.W.relName(fn), f.inst)
		alive := true
		f.curBlock = b
		for _, in := range b.Instrs {
			if _, ok := in.(*ssa.Phi); ok {
				continue
			}
			if !f.step(in, st) {
				alive = false
				break
			}
		}
		if !alive {
			continue
		}
		f.out[b.Index] = st
		// back edges out of this block: invariant preservation
		seenSucc := map[int]int{}
		for si, s := range b.Succs {
			_ = si
			nth := seenSucc[s.Index]
			seenSucc[s.Index]++
			if sl := f.loops[s.Index]; sl != nil && sl.back[b.Index] {
				f.loopBackEdge(sl, b, succIndex(b, s, nth), st)
			}
		}
	}
	// merge returns
	if len(f.rets) == 0 {
		return &State{reach: "false", heap: st0.heap.clone(), defers: st0.defers}, nil
	}
	var conds []string
	var heaps []*Heap
	for _, r := range f.rets {
		conds = append(conds, r.reach)
		heaps = append(heaps, r.heap)
	}
	exit := &State{heap: g.mergeHeaps(conds, heaps), defers: st0.defers}
	exit.reach = or(conds...)
	if len(f.rets) > 1 {
		rn := g.fresh(fmt.Sprintf("RX%d", f.inst))
		g.define(rn, "Bool", exit.reach)
		exit.reach = rn
	}
	var results []Val
	nres := fn.Signature.Results().Len()
	for i := 0; i < nres; i++ {
		var vals []string
		for _, r := range f.rets {
			vals = append(vals, r.vals[i].T)
		}
		t := iteChain(conds, vals)
		rt := fn.Signature.Results().At(i).Type()
		if len(f.rets) > 1 {
			n := g.fresh(fmt.Sprintf("ret%d_%d", f.inst, i))
			g.define(n, sortOf(rt), t)
			t = n
		}
		results = append(results, Val{T: t, Ty: rt})
	}
	return exit, results
}

func (f *frame) loopHeader(li *loopInfo, st *State, phiVals map[*ssa.Phi]Val) {
	g := f.g
	// range iterator used by this loop (Next in header block)
	for _, in := range li.header.Instrs {
		if nx, ok := in.(*ssa.Next); ok {
			v := f.val(nx.Iter)
			li.rangeIt = &v
		}
	}
	tag := fmt.Sprintf("loop%d", li.ordinal)
	ws := f.loopWrites(li)
	if li.spec != nil {
		for _, m := range li.spec.Modifies {
			if s, ok := g.heapArrs[m]; ok {
				ws[m] = s
			}
		}
	}
	// implicit invariant: the function's frame condition holds at every iteration
	if f.top && f.con != nil {
		for _, name := range sortedKeys(ws) {
			if g.clean[name] {
				continue // only ever written at memory allocated by this function: handled below without obligations
			}
			if goal, ok := f.frameGoal(name, g.arr(st.heap, name, ws[name])); ok {
				li.frameArrs = append(li.frameArrs, name)
				if g.arr(st.heap, name, ws[name]) != g.arr(f.entry, name, ws[name]) {
					g.addObl("loop-init", f.oblName(fmt.Sprintf("%s-init:frame:%s", tag, name)), f.props, st.reach, goal, nil, "frame condition of "+name+" holds on loop entry", li.header.Instrs[0].Pos())
				}
			}
		}
	}
	// 1. invariants hold on entry
	if li.spec != nil {
		env := f.invEnv(li, st.heap, phiVals, li.header)
		for i, cl := range li.spec.Invs {
			t, err := g.trBool(cl.E, env)
			name := f.oblName(fmt.Sprintf("%s-init:%s", tag, clauseLabel(cl, i)))
			if err != nil {
				g.errorf("%s: %v", name, err)
				t = "false"
			}
			g.addObl("loop-init", name, f.clauseProps(cl), st.reach, t, nil, cl.Src, li.header.Instrs[0].Pos())
		}
	}
	// 2. havoc loop-modified state
	allocPre := g.arr(st.heap, "alloc", "Bool")
	for _, name := range sortedKeys(ws) {
		g.havocArr(st.heap, name, ws[name])
	}
	cur := map[*ssa.Phi]Val{}
	for _, in := range li.header.Instrs {
		phi, ok := in.(*ssa.Phi)
		if !ok {
			break
		}
		invariantVar := true
		for pi, p := range li.header.Preds {
			if li.back[p.Index] && phi.Edges[pi] != ssa.Value(phi) {
				invariantVar = false
			}
		}
		if invariantVar {
			cur[phi] = phiVals[phi]
			continue
		}
		cur[phi] = f.havocReg(phi, st)
		if g.isFresh(phiVals[phi].T) {
			// coinductive freshness: assumed here, checked on every back edge (loopBackEdge)
			g.markFresh(cur[phi].T)
			if li.freshPhis == nil {
				li.freshPhis = map[*ssa.Phi]bool{}
			}
			li.freshPhis[phi] = true
		}
		if phi.Comment == "rangeindex" {
			// go/ssa lowers `for i := range slice` to an index that starts at -1 and is incremented by one
			g.assumeUnder(st.reach, fmt.Sprintf("(and (>= %s (- 1)) (< %s 9223372036854775807))", cur[phi].T, cur[phi].T))
		}
	}
	// no dangling references: whatever a loop variable refers to at the head has been allocated
	// (values only come from allocations, allocation only grows)
	for _, in := range li.header.Instrs {
		phi, ok := in.(*ssa.Phi)
		if !ok {
			break
		}
		v, ok := cur[phi]
		if !ok || v.T == phiVals[phi].T {
			continue
		}
		al := g.arr(st.heap, "alloc", "Bool")
		switch phi.Type().Underlying().(type) {
		case *types.Slice:
			g.assumeUnder(st.reach, fmt.Sprintf("(or (= (s-arr %s) 0) (select %s (s-arr %s)))", v.T, al, v.T))
		case *types.Map, *types.Chan:
			// (pointers are left out: they may be field or element addresses, which are not allocation units)
			g.assumeUnder(st.reach, fmt.Sprintf("(or (= %s 0) (select %s %s))", v.T, al, v.T))
		}
	}
	li.phiCur = cur
	li.headHeap = st.heap.clone()
	if f.top {
		g.registerLoopReplayInputs(li.ordinal, st.heap)
	}
	// allocation only grows; arrays that this function writes only in memory it allocated itself keep
	// their entry values on everything that existed at entry (by construction of the encoding)
	if _, ok := ws["alloc"]; ok {
		g.assumeUnder(st.reach, fmt.Sprintf("(forall ((x!al Int)) (! (=> (select %s x!al) (select %s x!al)) :pattern ((select %s x!al))))", allocPre, st.heap.cur["alloc"], st.heap.cur["alloc"]))
	}
	if f.top && f.con != nil {
		for _, name := range sortedKeys(ws) {
			if _, vol := g.W.volatile[name]; vol {
				continue
			}
			if g.clean[name] && name != "alloc" && !strings.HasPrefix(name, "G!iter!") {
				cur := st.heap.cur[name]
				g.assumeUnder(st.reach, fmt.Sprintf("(forall ((x!fr Int)) (! (=> (select %s x!fr) (= (select %s x!fr) (select %s x!fr))) :pattern ((select %s x!fr))))", g.arr(f.entry, "alloc", "Bool"), cur, g.arr(f.entry, name, ws[name]), cur))
			}
		}
	}
	for _, name := range li.frameArrs {
		if goal, ok := f.frameGoal(name, g.arr(st.heap, name, ws[name])); ok {
			g.assumeUnder(st.reach, goal)
		}
	}
	// 3. assume invariants
	if li.spec != nil {
		env := f.invEnv(li, st.heap, cur, li.header)
		for _, cl := range li.spec.Invs {
			t, err := g.trBool(cl.E, env)
			if err != nil {
				continue // reported at init
			}
			g.assumeUnder(st.reach, t)
		}
	}
}

func clauseLabel(cl *Clause, i int) string {
	if cl.Label != "" {
		return cl.Label
	}
	return fmt.Sprintf("#%d", i+1)
}

func (f *frame) loopBackEdge(li *loopInfo, from *ssa.BasicBlock, si int, st *State) {
	g := f.g
	if li.spec == nil && len(li.frameArrs) == 0 {
		return
	}
	cond := f.edgeCond(from, si)
	// phi values along this edge
	phiVals := map[*ssa.Phi]Val{}
	pi := -1
	nth := 0
	for i, p := range li.header.Preds {
		if p == from {
			if succIndex(from, li.header, nth) == si {
				pi = i
				break
			}
			nth++
		}
	}
	if pi < 0 {
		for i, p := range li.header.Preds {
			if p == from {
				pi = i
			}
		}
	}
	for _, in := range li.header.Instrs {
		phi, ok := in.(*ssa.Phi)
		if !ok {
			break
		}
		phiVals[phi] = f.val(phi.Edges[pi])
		if li.freshPhis[phi] && !g.isFresh(phiVals[phi].T) {
			g.errorf("%s: loop variable %s was assumed to denote memory allocated by this function, but the value on a back edge is not known to be", f.fn, phi.Comment)
		}
	}
	env := f.invEnv(li, st.heap, phiVals, from)
	tag := fmt.Sprintf("loop%d", li.ordinal)
	el := f.edgeLabel(from)
	for _, name := range li.frameArrs {
		if goal, ok := f.frameGoal(name, g.arr(st.heap, name, g.heapArrs[name])); ok {
			g.addObl("loop-preserve", f.oblName(fmt.Sprintf("%s-preserve:frame:%s@b%s", tag, name, el)), f.props, cond, goal, nil, "frame condition of "+name+" is preserved", lastPos(from))
		}
	}
	if li.spec == nil {
		return
	}
	// cells: conditions over the state at the loop header (and locals of the body)
	type cell struct{ label, cond string }
	cellsFor := map[*Split][]cell{}
	if len(li.spec.Splits) > 0 {
		henv := f.invEnv(li, li.headHeap, li.phiCur, from)
		for _, sp := range li.spec.Splits {
			var alts []string
			for _, alt := range sp.Alts {
				t, err := g.trBool(alt.E, henv)
				if err != nil {
					g.errorf("%s split %s: %v", tag, sp.Name, err)
					t = "true"
				}
				cellsFor[sp] = append(cellsFor[sp], cell{alt.Label, t})
				alts = append(alts, t)
			}
			g.addObl("loop-preserve", f.oblName(fmt.Sprintf("%s-split:%s-exhaustive@b%s", tag, sp.Name, el)), f.props, cond, or(alts...), nil, "the cells of split "+sp.Name+" cover every iteration", lastPos(from))
		}
	}
	for i, cl := range li.spec.BackEdge {
		t, err := g.trBool(cl.E, env)
		name := f.oblName(fmt.Sprintf("%s-backedge:%s@b%s", tag, clauseLabel(cl, i), el))
		if err != nil {
			g.errorf("%s: %v", name, err)
			t = "false"
		}
		g.addObl("loop-preserve", name, f.clauseProps(cl), cond, t, nil, cl.Src, lastPos(from))
	}
	for i, cl := range li.spec.Invs {
		t, err := g.trBool(cl.E, env)
		base := fmt.Sprintf("%s-preserve:%s@b%s", tag, clauseLabel(cl, i), el)
		if err != nil {
			g.errorf("%s: %v", f.oblName(base), err)
			t = "false"
		}
		// which splits apply to this invariant
		cells := []cell{{"", "true"}}
		for _, sp := range li.spec.Splits {
			applies := false
			if len(sp.On) == 0 {
				applies = cl.Label != ""
			}
			for _, l := range sp.On {
				if l == cl.Label {
					applies = true
				}
			}
			if !applies {
				continue
			}
			var next []cell
			for _, c := range cells {
				for _, a := range cellsFor[sp] {
					lbl := a.label
					if c.label != "" {
						lbl = c.label + "." + a.label
					}
					next = append(next, cell{lbl, and(c.cond, a.cond)})
				}
			}
			cells = next
		}
		for _, c := range cells {
			name := base
			if c.label != "" {
				name += "[" + c.label + "]"
			}
			g.addObl("loop-preserve", f.oblName(name), f.clauseProps(cl), and(cond, c.cond), t, nil, cl.Src, lastPos(from))
		}
	}
}

// edgeLabel names a back edge by the ordinal of its source block among the loop's latches
// (stable under edits outside the loop; never a line number).
func (f *frame) edgeLabel(from *ssa.BasicBlock) string {
	for _, li := range f.loops {
		if li.back[from.Index] {
			var bs []int
			for b := range li.back {
				bs = append(bs, b)
			}
			sort.Ints(bs)
			for i, b := range bs {
				if b == from.Index {
					return fmt.Sprint(i + 1)
				}
			}
		}
	}
	return fmt.Sprint(from.Index)
}

func lastPos(b *ssa.BasicBlock) token.Pos {
	for i := len(b.Instrs) - 1; i >= 0; i-- {
		if p := b.Instrs[i].Pos(); p.IsValid() {
			return p
		}
	}
	return token.NoPos
}

// safety registers a safety obligation (bounds, nil, overflow, ...).
func (f *frame) safety(kind string, st *State, goal string, pos token.Pos, what string) {
	if goal == "true" {
		return
	}
	if f.safeCtr == nil {
		f.safeCtr = map[string]int{}
		f.safeSeen = map[string][]*ssa.BasicBlock{}
	}
	// the same check in a dominating block of this frame was already made (and then assumed)
	if f.curBlock != nil {
		for _, b := range f.safeSeen[goal] {
			if b.Dominates(f.curBlock) {
				return
			}
		}
		f.safeSeen[goal] = append(f.safeSeen[goal], f.curBlock)
	}
	f.safeCtr[kind]++
	name := f.oblName(fmt.Sprintf("safety:%s#%d", kind, f.safeCtr[kind]))
	props := append([]string{}, f.props...)
	has := false
	for _, p := range props {
		if p == "C19" {
			has = true
		}
	}
	if !has && f.g.W.sweep[f.g.fnName] {
		props = append(props, "C19")
	}
	f.g.addObl("safety", name, props, st.reach, goal, nil, what, pos)
	f.g.assumeUnder(st.reach, goal)
}
