package main

// Character-class predicates on strings (DESIGN.md 2.3 "Strings"): cls!N(s) <=> every octet of s
// satisfies P. Defined through a witness function so that both directions are quantifier-light:
//   cls(s) && 0 <= i < slen(s)  ==>  P(sat(s,i))
//   !cls(s)  ==>  0 <= wit(s) < slen(s) && !P(sat(s, wit(s)))
// plus the (derivable) closure lemmas for concatenation and substrings, and evaluation on literals.

import (
	"fmt"
	"strings"
)

// evalPred evaluates a byte predicate on a concrete octet.
func evalPred(e Expr, c int64, consts map[string]int64) (val int64, isBool bool, ok bool) {
	b2i := func(b bool) int64 {
		if b {
			return 1
		}
		return 0
	}
	switch x := e.(type) {
	case EInt:
		return x.V, false, true
	case EBool:
		return b2i(x.V), true, true
	case EParen:
		return evalPred(x.X, c, consts)
	case EIdent:
		if x.Name == "c" {
			return c, false, true
		}
		if v, ok := consts[x.Name]; ok {
			return v, false, true
		}
	case EUn:
		v, _, ok := evalPred(x.X, c, consts)
		if !ok {
			return 0, false, false
		}
		if x.Op == "!" {
			return b2i(v == 0), true, true
		}
		return -v, false, true
	case EBin:
		l, _, ok1 := evalPred(x.L, c, consts)
		r, _, ok2 := evalPred(x.R, c, consts)
		if !ok1 || !ok2 {
			return 0, false, false
		}
		switch x.Op {
		case "&&":
			return b2i(l != 0 && r != 0), true, true
		case "||":
			return b2i(l != 0 || r != 0), true, true
		case "==>":
			return b2i(l == 0 || r != 0), true, true
		case "==":
			return b2i(l == r), true, true
		case "!=":
			return b2i(l != r), true, true
		case "<":
			return b2i(l < r), true, true
		case "<=":
			return b2i(l <= r), true, true
		case ">":
			return b2i(l > r), true, true
		case ">=":
			return b2i(l >= r), true, true
		case "+":
			return l + r, false, true
		case "-":
			return l - r, false, true
		}
	}
	return 0, false, false
}

func (g *Gen) classHoldsOn(sc *StrClass, s string) bool {
	for i := 0; i < len(s); i++ {
		v, _, ok := evalPred(sc.P, int64(s[i]), g.W.db.Consts)
		if !ok || v == 0 {
			return false
		}
	}
	return true
}

// declareClass declares the predicate, its defining axioms and its value on the literals seen so far.
func (g *Gen) declareClass(sc *StrClass) string {
	name := "cls!" + sc.Name
	if g.declared[name] {
		return name
	}
	g.declareFun(name, []string{"Str"}, "Bool")
	wit := "wit!" + sc.Name
	g.declareFun(wit, []string{"Str"}, "Int")
	env := &Env{g: g, vars: map[string]Val{"c": {T: "(sat s i)", Ty: tyInt}}, heap: &Heap{cur: map[string]string{}}}
	p1, err := g.trBool(sc.P, env)
	if err != nil {
		g.errorf("strclass %s: %v", sc.Name, err)
		return name
	}
	env2 := &Env{g: g, vars: map[string]Val{"c": {T: fmt.Sprintf("(sat s (%s s))", wit), Ty: tyInt}}, heap: &Heap{cur: map[string]string{}}}
	p2, _ := g.trBool(sc.P, env2)
	g.assume(fmt.Sprintf("(forall ((s Str) (i Int)) (! (=> (and (%s s) (<= 0 i) (< i (slen s))) %s) :pattern ((%s s) (sat s i))))", name, p1, name))
	g.assume(fmt.Sprintf("(forall ((s Str)) (! (=> (not (%s s)) (and (<= 0 (%s s)) (< (%s s) (slen s)) (not %s))) :pattern ((%s s))))", name, wit, wit, p2, name))
	g.assume(fmt.Sprintf("(%s str!empty)", name))
	g.classes = append(g.classes, sc)
	for lit, n := range g.strLits {
		g.classLiteral(sc, lit, n)
	}
	g.classClosure()
	return name
}

func (g *Gen) classLiteral(sc *StrClass, lit, sym string) {
	if lit == "" {
		return
	}
	if g.classHoldsOn(sc, lit) {
		g.assume(fmt.Sprintf("(cls!%s %s)", sc.Name, sym))
	} else {
		g.assume(fmt.Sprintf("(not (cls!%s %s))", sc.Name, sym))
	}
}

// classClosure emits the closure lemmas for the string functions declared so far (idempotent).
func (g *Gen) classClosure() {
	// inclusions between classes, decided by evaluating both predicates on all 256 octets
	for _, a := range g.classes {
		for _, b := range g.classes {
			if a == b || g.assumed["incl:"+a.Name+":"+b.Name] {
				continue
			}
			g.assumed["incl:"+a.Name+":"+b.Name] = true
			sub := true
			for c := int64(0); c < 256; c++ {
				va, _, ok1 := evalPred(a.P, c, g.W.db.Consts)
				vb, _, ok2 := evalPred(b.P, c, g.W.db.Consts)
				if !ok1 || !ok2 || (va != 0 && vb == 0) {
					sub = false
					break
				}
			}
			if sub {
				g.assume(fmt.Sprintf("(forall ((s Str)) (! (=> (cls!%s s) (cls!%s s)) :pattern ((cls!%s s))))", a.Name, b.Name, a.Name))
			}
		}
	}
	for _, sc := range g.classes {
		n := "cls!" + sc.Name
		if g.declared["sconcat"] && !g.assumed["cc:"+sc.Name] {
			g.assumed["cc:"+sc.Name] = true
			g.assume(fmt.Sprintf("(forall ((a Str) (b Str)) (! (= (%s (sconcat a b)) (and (%s a) (%s b))) :pattern ((sconcat a b))))", n, n, n))
		}
		if g.declared["substr"] && !g.assumed["cs:"+sc.Name] {
			g.assumed["cs:"+sc.Name] = true
			g.assume(fmt.Sprintf("(forall ((s Str) (i Int) (j Int)) (! (=> (and (%s s) (<= 0 i) (<= i j) (<= j (slen s))) (%s (substr s i j))) :pattern ((substr s i j))))", n, n))
		}
		if g.declared["fmtInt"] && !g.assumed["ci:"+sc.Name] {
			g.assumed["ci:"+sc.Name] = true
			if g.classHoldsOn(sc, "-0123456789") {
				g.assume(fmt.Sprintf("(forall ((x Int)) (! (%s (fmtInt x)) :pattern ((fmtInt x))))", n))
			}
		}
		if g.declared["runeStr"] && !g.assumed["cr:"+sc.Name] {
			g.assumed["cr:"+sc.Name] = true
			// a single ASCII rune: the class holds iff P holds of that octet
			env := &Env{g: g, vars: map[string]Val{"c": {T: "r", Ty: tyInt}}, heap: &Heap{cur: map[string]string{}}}
			p, err := g.trBool(sc.P, env)
			if err == nil {
				g.assume(fmt.Sprintf("(forall ((r Int)) (! (=> (and (<= 0 r) (< r 128)) (= (%s (runeStr r)) %s)) :pattern ((runeStr r))))", n, p))
			}
		}
	}
}

var _ = strings.Contains
