package main

import (
	"fmt"
	"go/constant"
	"go/token"
	"go/types"
	"sort"
	"strings"

	"golang.org/x/tools/go/ssa"
)

const maxInlineDepth = 4

// calleeKey determines the contract key for a call and, where static, the callee function.
func (f *frame) calleeKey(c *ssa.CallCommon) (key string, fn *ssa.Function, ci *closureInfo) {
	g := f.g
	if c.IsInvoke() {
		return g.W.typeName(c.Value.Type()) + "." + c.Method.Name(), nil, nil
	}
	if sf := c.StaticCallee(); sf != nil {
		if mc, ok := c.Value.(*ssa.MakeClosure); ok {
			v := f.val(mc)
			return g.W.relName(sf), sf, f.closure[v.T]
		}
		return g.W.relName(sf), sf, nil
	}
	if _, ok := c.Value.(*ssa.Builtin); ok {
		return "builtin:" + c.Value.Name(), nil, nil
	}
	v := f.val(c.Value)
	if ci := f.closure[v.T]; ci != nil {
		return g.W.relName(ci.fn), ci.fn, ci
	}
	if fld, ok := f.fnField[v.T]; ok {
		return "funcfield:" + strings.ReplaceAll(fld, "!", "."), nil, nil
	}
	return "funcvalue:" + types.TypeString(c.Value.Type(), nil), nil, nil
}

// doCall handles a call instruction (also used for deferred calls and go statements).
func (f *frame) doCall(c *ssa.CallCommon, at ssa.Instruction, st *State, pos token.Pos) Val {
	var args []Val
	if c.IsInvoke() {
		recv := f.val(c.Value)
		f.safety("nilcall", st, fmt.Sprintf("(not (= (i-tag %s) 0))", recv.T), pos, "method call on nil interface")
		args = append(args, recv)
	}
	for _, a := range c.Args {
		args = append(args, f.val(a))
	}
	return f.doCallVals(c, args, st, pos)
}

func (f *frame) doCallVals(c *ssa.CallCommon, args []Val, st *State, pos token.Pos) Val {
	g := f.g
	key, fn, ci := f.calleeKey(c)
	rt := c.Signature().Results()
	if strings.HasPrefix(key, "builtin:") {
		return f.builtin(c, key[8:], args, st, pos)
	}
	if strings.HasPrefix(key, "funcvalue:") || strings.HasPrefix(key, "funcfield:") {
		fv := f.val(c.Value)
		f.safety("nilcall", st, fmt.Sprintf("(not (= %s 0))", fv.T), pos, "call of nil function value")
	}
	// what the keyword abstraction knows about a []string argument, element by element
	for _, a := range args {
		if a.Ty != nil && isStringSlice(a.Ty) {
			if fact, ok := f.ssetElementsFact(a, st.heap); ok {
				k := "ssetfact:" + a.T + ":" + st.reach
				if !g.assumed[k] {
					g.assumed[k] = true
					g.assumeUnder(st.reach, fact)
				}
			}
		}
	}
	f.beforeCall(key, args, st, pos)
	if key == "strings.ToUpper" && len(args) == 1 {
		// constant folding: the upper-cased form of a string constant is a constant
		if k, ok := args[0].SSA.(*ssa.Const); ok && k.Value != nil && k.Value.Kind() == constant.String {
			return Val{T: g.strLit(strings.ToUpper(constant.StringVal(k.Value))), Ty: tyStr}
		}
	}
	if key == "fmt.Sprintf" || key == "fmt.Fprintf" {
		if v, ok := f.tryFmtCall(c, key, st); ok {
			return v
		}
	}
	con := g.W.db.Contracts[key]
	if con != nil && !con.Inline {
		res := f.applyContract(con, key, args, rt, st, pos, ci)
		if f.callResults == nil {
			f.callResults = map[string][]Val{}
		}
		f.callResults[key] = append(f.callResults[key], res)
		return res
	}
	if fn != nil && g.W.inPkg(fn) && len(fn.Blocks) > 0 {
		if f.depth < maxInlineDepth && !f.onStack(fn) {
			return f.inline(fn, ci, args, st, pos)
		}
		g.errorf("%s: call to %s needs a contract (inline depth/recursion)", f.fn, key)
	}
	// external function without stub: results unconstrained, package state untouched
	g.abstracted[key] = true
	name := g.fresh("ext_" + sanitize(lastSeg(key)))
	res := g.havocVal(name, resultType(rt), st.reach)
	// contents of slices/cells passed to unknown code may change
	for _, a := range args {
		f.havocReachable(a, st)
	}
	return res
}

// beforeCall: call-site assertions of the enclosing function's contract, keyed by callee.
func (f *frame) beforeCall(key string, args []Val, st *State, pos token.Pos) {
	g := f.g
	var con *Contract
	if f.top {
		con = f.con
	} else {
		con = g.W.db.Contracts[g.W.relName(f.fn)]
	}
	if con == nil {
		return
	}
	if f.beforeCtr == nil {
		f.beforeCtr = map[string]int{}
	}
	f.beforeCtr[key]++
	// clauses for every call of the callee, and clauses for its k-th call site only ("callee#k")
	clauses := append([]*Clause{}, con.Before[key]...)
	clauses = append(clauses, con.Before[fmt.Sprintf("%s#%d", key, f.beforeCtr[key])]...)
	if len(clauses) == 0 {
		return
	}
	env := &Env{g: g, vars: map[string]Val{}, heap: st.heap, old: f.entry}
	f.bindParams(env)
	env.lookup = f.localsAt(f.curBlock)
	// a parameter that has been reassigned: at a call site its name means the current value
	// (name0 / old(name) give the entry value)
	for _, p := range f.fn.Params {
		if v, ok := env.lookup(p.Name()); ok && v.T != env.vars[p.Name()].T {
			env.vars[p.Name()+"0"] = env.vars[p.Name()]
			env.vars[p.Name()] = v
		}
	}
	env.sset = f.sset
	env.frame = f
	env.callResults = f.callResults
	for i, a := range args {
		env.vars[fmt.Sprintf("$%d", i)] = a
	}
	for i, cl := range clauses {
		t, err := g.trBool(cl.E, env)
		name := f.oblName(fmt.Sprintf("before:%s#%d:%s", shortName(key), f.beforeCtr[key], clauseLabel(cl, i)))
		if err != nil {
			g.errorf("%s: %v", name, err)
			t = "false"
		}
		g.addObl("call-pre", name, f.clauseProps(cl), st.reach, t, nil, cl.Src, pos)
		g.assumeUnder(st.reach, t)
	}
}

func lastSeg(s string) string {
	if i := strings.LastIndexAny(s, "./"); i >= 0 {
		return s[i+1:]
	}
	return s
}

func resultType(rt *types.Tuple) types.Type {
	if rt.Len() == 1 {
		return rt.At(0).Type()
	}
	return rt
}

func (f *frame) onStack(fn *ssa.Function) bool {
	for _, s := range f.stack {
		if s == fn {
			return true
		}
	}
	return f.fn == fn
}

// havocReachable: an unknown external callee may write through slices / pointers to locals it is handed.
func (f *frame) havocReachable(a Val, st *State) {
	g := f.g
	if a.Ty == nil {
		return
	}
	switch u := a.Ty.Underlying().(type) {
	case *types.Slice:
		s := sortOf(u.Elem())
		es := "(Array Int " + s + ")"
		an := elemArrName(s)
		ar := g.arr(st.heap, an, es)
		nv := g.fresh("hvarr")
		g.declare(nv, es)
		g.noteWrite(an, "(s-arr "+a.T+")")
		g.assignArr(st.heap, an, es, fmt.Sprintf("(store %s (s-arr %s) %s)", ar, a.T, nv))
	case *types.Pointer:
		if a.Loc != nil && !a.Loc.Struct && a.Loc.Global == nil && strings.HasPrefix(a.Loc.Arr, "C!") {
			hv := g.fresh("hvcell")
			g.declare(hv, a.Loc.Sort)
			g.assumeUnder(st.reach, g.typeInv(hv, a.Loc.Ty))
			g.storeLoc(st.heap, a.Loc, hv)
		}
	}
}

// inline executes the callee body in the caller's state.
func (f *frame) inline(fn *ssa.Function, ci *closureInfo, args []Val, st *State, pos token.Pos) Val {
	g := f.g
	g.instCtr++
	name := g.W.relName(fn)
	g.inlined[name] = true
	f.callCtr[name]++
	sub := &frame{g: g, fn: fn, inst: g.instCtr, regs: map[ssa.Value]Val{}, depth: f.depth + 1, params: args,
		path: fmt.Sprintf("%s%s#%d>", f.path, shortName(name), f.callCtr[name]), props: f.props, callCtr: map[string]int{},
		stack: append(append([]*ssa.Function{}, f.stack...), f.fn), closure: f.closure, fnField: f.fnField, deferBase: len(st.defers), topEntry: f.entry0()}
	if ci != nil {
		sub.freeVars = ci.bindings
	}
	g.comment("inline %s", name)
	exit, results := sub.exec(st)
	g.comment("end inline %s", name)
	st.reach = exit.reach
	st.heap = exit.heap
	rt := fn.Signature.Results()
	switch rt.Len() {
	case 0:
		return Val{Ty: rt}
	case 1:
		if len(results) == 1 {
			return results[0]
		}
		return g.havocVal(g.fresh("noret"), rt.At(0).Type(), st.reach)
	}
	if len(results) != rt.Len() {
		return g.havocVal(g.fresh("noret"), rt, st.reach)
	}
	return Val{Tup: results, Ty: rt}
}

func shortName(s string) string {
	s = strings.NewReplacer("(*", "", ")", "", "(", "").Replace(s)
	return s
}

// contractEnv binds parameter names of a contract to argument values.
func (g *Gen) contractEnv(con *Contract, args []Val, heap, old *Heap) *Env {
	env := &Env{g: g, vars: map[string]Val{}, heap: heap, old: old}
	for i, n := range con.Params {
		if i < len(args) && n != "_" {
			env.vars[n] = args[i]
		}
	}
	return env
}

type modLoc struct {
	cond      string // "" = unconditional; otherwise the location changes only if cond holds
	arr, sort string
	idx       string // "" = whole array
	all       bool   // slice contents / map contents
	slice     *Val
	mapv      *Val
	src       string
	freshOnly bool // *newcells T: only cells that did not exist at the entry of the function under verification
}

// resolveMods turns "modifies" location expressions into heap locations.
func (g *Gen) resolveMods(con *Contract, env *Env) []modLoc {
	var out []modLoc
	for _, m := range con.Modifies {
		src := m
		condSrc := ""
		if i := strings.Index(m, " if "); i >= 0 {
			condSrc = m[i+4:]
			m = strings.TrimSpace(m[:i])
		}
		before := len(out)
		func() {
			defer func() {
				if r := recover(); r != nil {
					if te, ok := r.(trError); ok {
						g.errorf("contract %s: modifies %s: %s", con.Name, src, string(te))
						return
					}
					panic(r)
				}
			}()
			if strings.HasPrefix(m, "*.") {
				// every object's field: *.Type.field (whole heap array)
				rest := m[2:]
				i := strings.LastIndex(rest, ".")
				if i < 0 {
					trFail("expected *.Type.field")
				}
				tn, fn := rest[:i], rest[i+1:]
				if gf, ok := g.W.ghost[tn][fn]; ok {
					out = append(out, modLoc{arr: "G!" + tn + "!" + fn, sort: sortOf(g.W.mustType(gf.Type)), src: src})
					return
				}
				t, err := g.W.parseType(tn)
				if err != nil {
					trFail("%v", err)
				}
				arr, fty, ok := g.fieldArr(t, fn)
				if !ok {
					trFail("no field %s on %s", fn, tn)
				}
				out = append(out, modLoc{arr: arr, sort: sortOf(fty), src: src})
				return
			}
			if strings.HasPrefix(m, "*chan") {
				out = append(out, modLoc{arr: "G!chan!len", sort: "Int", src: src}, modLoc{arr: "G!chan!closed", sort: "Bool", src: src}, modLoc{arr: "G!chan!cap", sort: "Int", src: src})
				return
			}
			if strings.HasPrefix(m, "*newcells ") {
				// captured / address-taken locals of the given type that did not exist when the function under
				// verification was entered (the callee's own locals, written by the callbacks it hands out)
				t, err := g.W.parseType(strings.TrimSpace(m[10:]))
				if err != nil {
					trFail("%v", err)
				}
				s := sortOf(t)
				out = append(out, modLoc{arr: "C!" + sortTag(s), sort: s, src: src, freshOnly: true})
				return
			}
			if strings.HasPrefix(m, "*elems ") {
				t, err := g.W.parseType(strings.TrimSpace(m[7:]))
				if err != nil {
					trFail("%v", err)
				}
				s := sortOf(t)
				out = append(out, modLoc{arr: elemArrName(s), sort: "(Array Int " + s + ")", src: src})
				return
			}
			if strings.HasSuffix(m, "[**]") {
				// the whole backing array of a slice (append may write into spare capacity)
				e, err := parseExpr(strings.TrimSuffix(m, "[**]"))
				if err != nil {
					trFail("%v", err)
				}
				v := g.tr(stripParens(e), env)
				u, ok := v.Ty.Underlying().(*types.Slice)
				if !ok {
					trFail("[**] on %s", v.Ty)
				}
				s := sortOf(u.Elem())
				out = append(out, modLoc{arr: elemArrName(s), sort: "(Array Int " + s + ")", idx: "(s-arr " + v.T + ")", src: src})
				return
			}
			if strings.HasSuffix(m, "[*]") {
				e, err := parseExpr(strings.TrimSuffix(m, "[*]"))
				if err != nil {
					trFail("%v", err)
				}
				v := g.tr(stripParens(e), env)
				switch u := v.Ty.Underlying().(type) {
				case *types.Slice:
					s := sortOf(u.Elem())
					out = append(out, modLoc{arr: elemArrName(s), sort: "(Array Int " + s + ")", all: true, slice: &v, src: src})
				case *types.Map:
					has, get, ks, vs := mapArrNames(u)
					out = append(out, modLoc{arr: has, sort: "(Array " + ks + " Bool)", idx: v.T, src: src})
					out = append(out, modLoc{arr: get, sort: "(Array " + ks + " " + vs + ")", idx: v.T, src: src})
					out = append(out, modLoc{arr: "G!map!len", sort: "Int", idx: v.T, src: src})
				default:
					trFail("[*] on %s", v.Ty)
				}
				return
			}
			if strings.HasSuffix(m, ".*") {
				e, err := parseExpr(strings.TrimSuffix(m, ".*"))
				if err != nil {
					trFail("%v", err)
				}
				v := g.tr(stripParens(e), env)
				stt, bt := g.structOf(v.Ty)
				if stt == nil {
					trFail(".* on %s", v.Ty)
				}
				tn := g.W.typeName(bt)
				for i := 0; i < stt.NumFields(); i++ {
					fl := stt.Field(i)
					if _, isStruct := fl.Type().Underlying().(*types.Struct); isStruct {
						continue
					}
					out = append(out, modLoc{arr: "F!" + tn + "!" + fl.Name(), sort: sortOf(fl.Type()), idx: v.T, src: src})
				}
				for _, gf := range g.W.db.Ghosts {
					if gf.Owner == tn {
						out = append(out, modLoc{arr: "G!" + tn + "!" + gf.Name, sort: sortOf(g.W.mustType(gf.Type)), idx: v.T, src: src})
					}
				}
				return
			}
			if strings.HasPrefix(m, "chan(") && strings.HasSuffix(m, ")") {
				e, err := parseExpr(m[5 : len(m)-1])
				if err != nil {
					trFail("%v", err)
				}
				v := g.tr(stripParens(e), env)
				out = append(out, modLoc{arr: "G!chan!len", sort: "Int", idx: v.T, src: src})
				out = append(out, modLoc{arr: "G!chan!closed", sort: "Bool", idx: v.T, src: src})
				return
			}
			e, err := parseExpr(m)
			if err != nil {
				trFail("%v", err)
			}
			v := g.tr(stripParens(e), env)
			if v.Loc == nil || v.Loc.Pos != "" {
				trFail("not a field location")
			}
			out = append(out, modLoc{arr: v.Loc.Arr, sort: v.Loc.Sort, idx: v.Loc.Idx, src: src})
		}()
		if condSrc != "" {
			ce, err := parseExpr(condSrc)
			if err != nil {
				g.errorf("contract %s: modifies %s: %v", con.Name, src, err)
				continue
			}
			ct, err := g.trBool(stripParens(ce), env)
			if err != nil {
				g.errorf("contract %s: modifies %s: %v", con.Name, src, err)
				continue
			}
			for i := before; i < len(out); i++ {
				out[i].cond = ct
			}
		}
	}
	return out
}

// applyContract: assert requires, havoc modifies, assume ensures.
func (f *frame) applyContract(con *Contract, key string, args []Val, rt *types.Tuple, st *State, pos token.Pos, ci *closureInfo) Val {
	g := f.g
	if con.Stub {
		g.usedStubs[key] = true
	} else {
		g.usedContracts[key] = true
	}
	f.callCtr[key]++
	if ci != nil {
		// closure contract: free variables are addressed by name after the parameters
		args = append(append([]Val{}, args...), ci.bindings...)
	}
	pre := st.heap.clone()
	env := g.contractEnv(con, args, st.heap, pre)
	env.frame = f
	if ci != nil {
		for i, fv := range ci.fn.FreeVars {
			if i < len(ci.bindings) {
				v := ci.bindings[i]
				v.Cell = isCellType(fv.Type())
				env.vars[fv.Name()] = v
			}
		}
	}
	g.comment("call %s (contract)", key)
	for i, cl := range con.Requires {
		t, err := g.trBool(cl.E, env)
		name := f.oblName(fmt.Sprintf("call-pre:%s#%d:%s", shortName(key), f.callCtr[key], clauseLabel(cl, i)))
		if err != nil {
			g.errorf("%s: %v", name, err)
			t = "false"
		}
		props := cl.Props
		if len(props) == 0 {
			props = con.Props
		}
		if len(props) == 0 {
			props = f.props
		}
		g.addObl("call-pre", name, props, st.reach, t, nil, cl.Src, pos)
		g.assumeUnder(st.reach, t)
	}
	// havoc
	mods := g.resolveMods(con, env)
	for _, m := range mods {
		switch {
		case m.freshOnly:
			g.dirty[m.arr] = true
		case m.all && m.slice != nil:
			g.noteWrite(m.arr, "(s-arr "+m.slice.T+")")
		case m.idx == "":
			g.dirty[m.arr] = true
		default:
			g.noteWrite(m.arr, m.idx)
		}
		switch {
		case m.freshOnly:
			a := g.arr(st.heap, m.arr, m.sort)
			na := g.fresh("newcells")
			g.declare(na, "(Array Int "+m.sort+")")
			g.assumeUnder(st.reach, fmt.Sprintf("(forall ((x Int)) (! (=> (select %s x) (= (select %s x) (select %s x))) :pattern ((select %s x))))", g.arr(f.entry, "alloc", "Bool"), na, a, na))
			g.assignArr(st.heap, m.arr, m.sort, na)
		case m.all && m.slice != nil:
			es := m.sort
			a := g.arr(st.heap, m.arr, es)
			na := g.fresh("modarr")
			g.declare(na, es)
			sl := m.slice.T
			g.assumeUnder(st.reach, fmt.Sprintf("(forall ((k Int)) (! (=> (or (< k (s-off %[1]s)) (>= k (+ (s-off %[1]s) (s-len %[1]s)))) (= (select %[2]s k) (select (select %[3]s (s-arr %[1]s)) k))) :pattern ((select %[2]s k))))", sl, na, a))
			g.assignArr(st.heap, m.arr, es, fmt.Sprintf("(store %s (s-arr %s) %s)", a, sl, na))
		case m.idx == "":
			g.havocArr(st.heap, m.arr, m.sort)
		default:
			a := g.arr(st.heap, m.arr, m.sort)
			hv := g.fresh("mod")
			g.declare(hv, m.sort)
			if m.cond != "" {
				g.assignArr(st.heap, m.arr, m.sort, fmt.Sprintf("(store %s %s (ite %s %s (select %s %s)))", a, m.idx, m.cond, hv, a, m.idx))
			} else {
				g.assignArr(st.heap, m.arr, m.sort, fmt.Sprintf("(store %s %s %s)", a, m.idx, hv))
			}
		}
	}
	// volatile ghost state is forgotten across every contracted call of package code
	// (a contract marked `pure` - no modifies clause, checked by its frame obligations - forgets nothing)
	if (!con.Stub || len(con.Modifies) > 0) && !(con.Pure && len(con.Modifies) == 0) {
		listed := map[string]bool{}
		for _, m := range mods {
			listed[m.arr] = true
		}
		for _, name := range sortedKeys(g.W.volatile) {
			if !listed[name] && (!con.Stub) {
				g.havocArr(st.heap, name, g.W.volatile[name])
			}
		}
	}
	// results
	var res Val
	name := g.fresh("r_" + sanitize(lastSeg(key)))
	switch rt.Len() {
	case 0:
		res = Val{Ty: rt}
	case 1:
		res = g.havocVal(name, rt.At(0).Type(), st.reach)
	default:
		res = g.havocVal(name, rt, st.reach)
	}
	post := g.contractEnv(con, args, st.heap, pre)
	if ci != nil {
		for i, fv := range ci.fn.FreeVars {
			if i < len(ci.bindings) {
				v := ci.bindings[i]
				v.Cell = isCellType(fv.Type())
				post.vars[fv.Name()] = v
			}
		}
	}
	rvals := []Val{res}
	if rt.Len() > 1 {
		rvals = res.Tup
	}
	for i, n := range con.Results {
		if i < len(rvals) && rt.Len() > 0 {
			post.vars[n] = rvals[i]
		}
	}
	if rt.Len() == 1 {
		post.vars["result"] = res
	}
	// fresh results
	for _, frs := range con.Fresh {
		fr, condSrc := frs, ""
		if i := strings.Index(frs, " if "); i >= 0 {
			fr, condSrc = strings.TrimSpace(frs[:i]), frs[i+4:]
		}
		v, ok := post.vars[fr]
		if !ok {
			// an expression over the results, e.g. fresh r.R
			fe, err := parseExpr(fr)
			if err == nil {
				post.heap = st.heap
				func() {
					defer func() {
						if r := recover(); r != nil {
							if _, isTr := r.(trError); !isTr {
								panic(r)
							}
						}
					}()
					v = g.tr(stripParens(fe), post)
					ok = true
				}()
			}
		}
		if !ok {
			g.errorf("contract %s: fresh %s: cannot be evaluated", con.Name, fr)
			continue
		}
		guard := st.reach
		fcond := "true"
		if condSrc != "" {
			ce, err := parseExpr(condSrc)
			if err != nil {
				g.errorf("contract %s: fresh %s: %v", con.Name, frs, err)
				continue
			}
			post.heap = st.heap
			ct, err := g.trBool(stripParens(ce), post)
			if err != nil {
				g.errorf("contract %s: fresh %s: %v", con.Name, frs, err)
				continue
			}
			guard = and(st.reach, ct)
			fcond = ct
		}
		ref := v.T
		if sortOf(v.Ty) == "Iface" {
			ref = "(i-val " + v.T + ")"
		} else if sortOf(v.Ty) == "Slice" {
			ref = "(s-arr " + v.T + ")"
		}
		al := g.arr(st.heap, "alloc", "Bool")
		g.assumeUnder(guard, fmt.Sprintf("(and (> %s 0) (not (select %s %s)))", ref, al, ref))
		g.assignArr(st.heap, "alloc", "Bool", fmt.Sprintf("(store %s %s true)", al, ref))
		g.markFresh(ref)
		g.markFresh(v.T)
		tn := ""
		if stt, bt := g.structOf(v.Ty); stt != nil {
			tn = g.W.typeName(bt)
			nf := stt.NumFields()
			if nt, ok := bt.(*types.Named); ok && nt.Obj().Pkg() != g.W.tpkg {
				nf = 0 // internals of library types are never read by the code under contract
			}
			for i := 0; i < nf; i++ {
				fl := stt.Field(i)
				if _, isStruct := fl.Type().Underlying().(*types.Struct); isStruct {
					continue
				}
				s := sortOf(fl.Type())
				an := "F!" + tn + "!" + fl.Name()
				a := g.arr(st.heap, an, s)
				hv := g.fresh("freshfld")
				g.declare(hv, s)
				g.assumeUnder(st.reach, g.typeInv(hv, fl.Type()))
				g.assignArr(st.heap, an, s, fmt.Sprintf("(store %s %s (ite %s %s (select %s %s)))", a, ref, fcond, hv, a, ref))
			}
		} else {
			tn = g.W.typeName(v.Ty)
		}
		for _, gf := range g.W.db.Ghosts {
			if gf.Owner == tn {
				s := sortOf(g.W.mustType(gf.Type))
				an := "G!" + tn + "!" + gf.Name
				a := g.arr(st.heap, an, s)
				hv := g.fresh("freshgh")
				g.declare(hv, s)
				g.assignArr(st.heap, an, s, fmt.Sprintf("(store %s %s (ite %s %s (select %s %s)))", a, ref, fcond, hv, a, ref))
			}
		}
	}
	post.heap = st.heap
	for _, cl := range con.Ensures {
		if strings.Contains(cl.Src, "resultof(") || strings.Contains(cl.Src, "called(") {
			// a clause about the calls the callee makes itself: an obligation of the callee, nothing a
			// caller can use (the caller is told less, which is sound)
			continue
		}
		t, err := g.trBool(cl.E, post)
		if err != nil {
			g.errorf("contract %s: ensures %s: %v", con.Name, cl.Src, err)
			continue
		}
		g.assumeUnder(st.reach, t)
	}
	// typing invariants of modified locations
	return res
}

// doGo: a go statement checks the spawned closure's precondition; the spawner learns nothing.
func (f *frame) doGo(x *ssa.Go, st *State) {
	g := f.g
	key, _, ci := f.calleeKey(&x.Call)
	con := g.W.db.Contracts[key]
	if f.goSites == nil {
		f.goSites = map[string]*goSite{}
	}
	f.goSites[key] = &goSite{reach: st.reach, ci: ci}
	if con == nil {
		g.note("go %s: spawned goroutine has no contract; its effects are not part of the sequential VCs", key)
		return
	}
	var args []Val
	for _, a := range x.Call.Args {
		args = append(args, f.val(a))
	}
	if ci != nil {
		args = append(args, ci.bindings...)
	}
	env := g.contractEnv(con, args, st.heap, st.heap)
	if ci != nil {
		for i, fv := range ci.fn.FreeVars {
			if i < len(ci.bindings) {
				v := ci.bindings[i]
				v.Cell = isCellType(fv.Type())
				env.vars[fv.Name()] = v
			}
		}
	}
	f.callCtr[key]++
	for i, cl := range con.Requires {
		t, err := g.trBool(cl.E, env)
		name := f.oblName(fmt.Sprintf("go-pre:%s#%d:%s", shortName(key), f.callCtr[key], clauseLabel(cl, i)))
		if err != nil {
			g.errorf("%s: %v", name, err)
			t = "false"
		}
		props := cl.Props
		if len(props) == 0 {
			props = con.Props
		}
		g.addObl("call-pre", name, props, st.reach, t, nil, cl.Src, x.Pos())
	}
	// ghost effects the spawner may rely on (declared in the closure contract as "ensures" are NOT assumed here)
}

type goSite struct {
	reach string
	ci    *closureInfo
}

// joinAtRecv: after a receive from the completion channel of a spawned closure, the closure's
// postcondition holds (channel hand-off; listed as an assumption of the sequential VCs).
func (f *frame) joinAtRecv(ch Val, rv Val, st *State) {
	g := f.g
	var con *Contract
	if f.top {
		con = f.con
	} else {
		con = g.W.db.Contracts[g.W.relName(f.fn)]
	}
	if con == nil {
		return
	}
	for _, j := range con.Joins {
		lv, ok := f.localsAt(f.curBlock)(j.ChanLocal)
		if !ok || lv.T != ch.T {
			continue
		}
		site := f.goSites[j.Closure]
		cc := g.W.db.Contracts[j.Closure]
		if site == nil || cc == nil || site.ci == nil {
			g.errorf("%s: join %s: no go statement for %s on this path", con.Name, j.ChanLocal, j.Closure)
			continue
		}
		pre := st.heap.clone()
		env := &Env{g: g, vars: map[string]Val{}, heap: st.heap, old: pre}
		for i, fv := range site.ci.fn.FreeVars {
			if i < len(site.ci.bindings) {
				v := site.ci.bindings[i]
				v.Cell = isCellType(fv.Type())
				env.vars[fv.Name()] = v
			}
		}
		for _, m := range g.resolveMods(cc, env) {
			switch {
			case m.idx == "" || m.all:
				// whole-array effects of the closure: conditional havoc of the array
				old := g.arr(st.heap, m.arr, m.sort)
				nv := g.havocArr(st.heap, m.arr, m.sort)
				g.dirty[m.arr] = true
				g.assume(fmt.Sprintf("(=> (not %s) (= %s %s))", site.reach, nv, old))
			default:
				g.noteWrite(m.arr, m.idx)
				a := g.arr(st.heap, m.arr, m.sort)
				hv := g.fresh("join")
				g.declare(hv, m.sort)
				g.assignArr(st.heap, m.arr, m.sort, fmt.Sprintf("(store %s %s (ite %s %s (select %s %s)))", a, m.idx, site.reach, hv, a, m.idx))
			}
		}
		post := *env
		post.heap = st.heap
		guard := and(st.reach, site.reach)
		if sortOf(rv.Ty) == "Bool" {
			guard = and(guard, rv.T)
		}
		for _, cl := range cc.Ensures {
			t, err := g.trBool(cl.E, &post)
			if err != nil {
				g.errorf("%s: join %s: %v", con.Name, j.Closure, err)
				continue
			}
			g.assumeUnder(guard, t)
		}
		g.note("channel hand-off assumed in %s: after receiving from %s the postcondition of %s holds", con.Name, j.ChanLocal, j.Closure)
	}
}

func (f *frame) runDeferred(d *deferred, st *State) {
	args := d.args
	if d.call.IsInvoke() {
		args = append([]Val{d.fval}, args...)
	}
	f.doCallVals(d.call, args, st, d.pos)
}

// ---------- builtins ----------

func (f *frame) builtin(c *ssa.CallCommon, name string, args []Val, st *State, pos token.Pos) Val {
	g := f.g
	rt := c.Signature().Results()
	switch name {
	case "len":
		v := args[0]
		switch sortOf(v.Ty) {
		case "Str":
			return Val{T: "(slen " + v.T + ")", Ty: tyInt}
		case "Slice":
			return Val{T: "(s-len " + v.T + ")", Ty: tyInt}
		}
		if _, ok := v.Ty.Underlying().(*types.Map); ok {
			r := Val{T: fmt.Sprintf("(ite (= %[2]s 0) 0 (select %[1]s %[2]s))", g.arr(st.heap, "G!map!len", "Int"), v.T), Ty: tyInt}
			g.assumeUnder(st.reach, "(>= "+r.T+" 0)")
			return r
		}
		if _, ok := v.Ty.Underlying().(*types.Chan); ok {
			return Val{T: fmt.Sprintf("(select %s %s)", g.arr(st.heap, "G!chan!len", "Int"), v.T), Ty: tyInt}
		}
	case "cap":
		v := args[0]
		if sortOf(v.Ty) == "Slice" {
			return Val{T: "(s-cap " + v.T + ")", Ty: tyInt}
		}
		if _, ok := v.Ty.Underlying().(*types.Chan); ok {
			return Val{T: fmt.Sprintf("(select %s %s)", g.arr(st.heap, "G!chan!cap", "Int"), v.T), Ty: tyInt}
		}
	case "append":
		res := f.appendOp(c, args, st, pos)
		f.ssetAppend(c, args, res)
		return res
	case "copy":
		dst, src := args[0], args[1]
		n := g.fresh("copyn")
		srcLen := "(s-len " + src.T + ")"
		if sortOf(src.Ty) == "Str" {
			srcLen = "(slen " + src.T + ")"
		}
		g.define(n, "Int", fmt.Sprintf("(ite (<= (s-len %s) %s) (s-len %s) %s)", dst.T, srcLen, dst.T, srcLen))
		et := dst.Ty.Underlying().(*types.Slice).Elem()
		s := sortOf(et)
		es := "(Array Int " + s + ")"
		an := elemArrName(s)
		a := g.arr(st.heap, an, es)
		na := g.fresh("copyarr")
		g.declare(na, es)
		var srcAt string
		if sortOf(src.Ty) == "Str" {
			srcAt = fmt.Sprintf("(sat %s (- k (s-off %s)))", src.T, dst.T)
		} else {
			srcAt = fmt.Sprintf("(select (select %s (s-arr %s)) (+ (s-off %s) (- k (s-off %s))))", a, src.T, src.T, dst.T)
		}
		g.assumeUnder(st.reach, fmt.Sprintf("(forall ((k Int)) (! (= (select %[1]s k) (ite (and (<= (s-off %[2]s) k) (< k (+ (s-off %[2]s) %[3]s))) %[4]s (select (select %[5]s (s-arr %[2]s)) k))) :pattern ((select %[1]s k))))", na, dst.T, n, srcAt, a))
		g.noteWrite(an, "(s-arr "+dst.T+")")
		g.assignArr(st.heap, an, es, fmt.Sprintf("(store %s (s-arr %s) %s)", a, dst.T, na))
		return Val{T: n, Ty: tyInt}
	case "delete":
		m, k := args[0], args[1]
		mt := m.Ty.Underlying().(*types.Map)
		has, _, ks, _ := mapArrNames(mt)
		hs := "(Array " + ks + " Bool)"
		ha := g.arr(st.heap, has, hs)
		ml := g.arr(st.heap, "G!map!len", "Int")
		g.noteWrite(has, m.T)
		g.noteWrite("G!map!len", m.T)
		g.assignArr(st.heap, "G!map!len", "Int", fmt.Sprintf("(store %[1]s %[2]s (ite (select (select %[3]s %[2]s) %[4]s) (- (select %[1]s %[2]s) 1) (select %[1]s %[2]s)))", ml, m.T, ha, k.T))
		g.assignArr(st.heap, has, hs, fmt.Sprintf("(store %[1]s %[2]s (store (select %[1]s %[2]s) %[3]s false))", ha, m.T, k.T))
		return Val{Ty: rt}
	case "close":
		ch := args[0]
		cl := g.arr(st.heap, "G!chan!closed", "Bool")
		f.safety("closeclosed", st, fmt.Sprintf("(and (not (= %s 0)) (not (select %s %s)))", ch.T, cl, ch.T), pos, "close of nil or closed channel")
		g.noteWrite("G!chan!closed", ch.T)
		g.assignArr(st.heap, "G!chan!closed", "Bool", fmt.Sprintf("(store %s %s true)", cl, ch.T))
		return Val{Ty: rt}
	case "recover":
		// non-nil exactly in the panicking case (recovered!), which only exists while a function that calls
		// recover() is verified under its own contract; everywhere else recovered! is assumed false
		v := g.havocVal(g.fresh("recover"), tyAny, st.reach)
		g.assumeUnder(st.reach, fmt.Sprintf("(and (= (= (i-tag %s) 0) (not recovered!)) (=> (not recovered!) (= %s iface-nil)))", v.T, v.T))
		return v
	case "print", "println":
		return Val{Ty: rt}
	case "ssa:wrapnilchk":
		return args[0]
	case "min", "max":
		a, b := args[0], args[1]
		op := "<="
		if name == "max" {
			op = ">="
		}
		return Val{T: fmt.Sprintf("(ite (%s %s %s) %s %s)", op, a.T, b.T, a.T, b.T), Ty: a.Ty}
	}
	g.errorf("unsupported builtin %s", name)
	return g.havocVal(g.fresh("builtin"), resultType(rt), st.reach)
}

func (f *frame) appendOp(c *ssa.CallCommon, args []Val, st *State, pos token.Pos) Val {
	g := f.g
	base, more := args[0], args[1]
	et := base.Ty.Underlying().(*types.Slice).Elem()
	s := sortOf(et)
	es := "(Array Int " + s + ")"
	an := elemArrName(s)
	a := g.arr(st.heap, an, es)
	moreLen := "(s-len " + more.T + ")"
	if sortOf(more.Ty) == "Str" {
		moreLen = "(slen " + more.T + ")"
	}
	// result: nondeterministically in place (if capacity suffices) or a fresh backing array
	n := g.fresh("app")
	g.declare(n, "Slice")
	newLen := fmt.Sprintf("(+ (s-len %s) %s)", base.T, moreLen)
	fits := fmt.Sprintf("(<= %s (s-cap %s))", newLen, base.T)
	fr := g.allocRef(st, "apparr")
	g.assumeUnder(st.reach, fmt.Sprintf("(and (= (s-len %[1]s) %[2]s) (>= (s-cap %[1]s) %[2]s) (ite %[3]s (and (= (s-arr %[1]s) (s-arr %[4]s)) (= (s-off %[1]s) (s-off %[4]s)) (= (s-cap %[1]s) (s-cap %[4]s))) (and (= (s-arr %[1]s) %[5]s) (= (s-off %[1]s) 0))))", n, newLen, fits, base.T, fr))
	// when appending nothing to a nil slice Go returns the nil slice; model: arr may be 0 only then
	na := g.fresh("apparr")
	g.declare(na, es)
	var moreAt string
	if sortOf(more.Ty) == "Str" {
		moreAt = fmt.Sprintf("(sat %s (- k (+ (s-off %s) (s-len %s))))", more.T, n, base.T)
	} else {
		moreAt = fmt.Sprintf("(select (select %s (s-arr %s)) (+ (s-off %s) (- k (+ (s-off %s) (s-len %s)))))", a, more.T, more.T, n, base.T)
	}
	oldAt := fmt.Sprintf("(select (select %s (s-arr %s)) (+ (s-off %s) (- k (s-off %s))))", a, base.T, base.T, n)
	g.assumeUnder(st.reach, fmt.Sprintf("(forall ((k Int)) (! (= (select %[1]s k) (ite (and (<= (s-off %[2]s) k) (< k (+ (s-off %[2]s) (s-len %[3]s)))) %[4]s (ite (and (<= (+ (s-off %[2]s) (s-len %[3]s)) k) (< k (+ (s-off %[2]s) (s-len %[2]s)))) %[5]s (select (select %[6]s (s-arr %[2]s)) k)))) :pattern ((select %[1]s k))))", na, n, base.T, oldAt, moreAt, a))
	// the same facts by element index (consequences of the axiom above, in the slot form contracts use)
	g.assumeUnder(st.reach, fmt.Sprintf("(forall ((j Int)) (! (=> (and (<= 0 j) (< j (s-len %[3]s))) (= (select %[1]s (slot (s-off %[2]s) j)) (select (select %[4]s (s-arr %[3]s)) (slot (s-off %[3]s) j)))) :pattern ((select %[1]s (slot (s-off %[2]s) j)))))", na, n, base.T, a))
	if sortOf(more.Ty) != "Str" {
		g.assumeUnder(st.reach, fmt.Sprintf("(=> (>= %[5]s 1) (= (select %[1]s (slot (s-off %[2]s) (s-len %[3]s))) (select (select %[4]s (s-arr %[6]s)) (slot (s-off %[6]s) 0))))", na, n, base.T, a, moreLen, more.T))
	}
	if g.isFresh(base.T) {
		g.markFresh(n)
	}
	g.noteWrite(an, "(s-arr "+n+")")
	g.assignArr(st.heap, an, es, fmt.Sprintf("(store %s (s-arr %s) %s)", a, n, na))
	return Val{T: n, Ty: base.Ty}
}

// ---------- syntactic write sets (for loop havoc) ----------

func (g *Gen) blockWrites(b *ssa.BasicBlock, ws map[string]string, depth int, seen map[*ssa.Function]bool) {
	for _, in := range b.Instrs {
		switch x := in.(type) {
		case *ssa.Store:
			g.addrWrites(x.Addr, ws)
		case *ssa.MapUpdate:
			mt := x.Map.Type().Underlying().(*types.Map)
			has, get, ks, vs := mapArrNames(mt)
			ws[has] = "(Array " + ks + " Bool)"
			ws[get] = "(Array " + ks + " " + vs + ")"
			ws["G!map!len"] = "Int"
		case *ssa.Alloc, *ssa.MakeSlice, *ssa.MakeMap, *ssa.MakeChan, *ssa.Range:
			ws["alloc"] = "Bool"
			g.allocWrites(in, ws)
		case *ssa.Next:
			ws["G!iter!pos"] = "Int"
			if !x.IsString {
				if rng, ok := x.Iter.(*ssa.Range); ok {
					if mt, ok := rng.X.Type().Underlying().(*types.Map); ok {
						ks := sortOf(mt.Key())
						ws["G!iter!visited!"+sortTag(ks)] = "(Array " + ks + " Bool)"
					}
				}
			}
		case *ssa.Send, *ssa.Select:
			ws["G!chan!len"] = "Int"
		case *ssa.UnOp:
			if x.Op == token.ARROW {
				ws["G!chan!len"] = "Int"
			}
		case *ssa.Call:
			g.callWrites(&x.Call, ws, depth, seen)
		case *ssa.Defer:
			g.callWrites(&x.Call, ws, depth, seen)
		case *ssa.Convert:
			if sortOf(x.X.Type()) == "Str" && sortOf(x.Type()) == "Slice" {
				ws["alloc"] = "Bool"
				ws[elemArrName("Int")] = "(Array Int Int)"
			}
		}
	}
}

func (g *Gen) allocWrites(in ssa.Instruction, ws map[string]string) {
	switch x := in.(type) {
	case *ssa.Alloc:
		et := x.Type().Underlying().(*types.Pointer).Elem()
		switch u := et.Underlying().(type) {
		case *types.Struct:
			tn := g.W.typeName(et)
			for i := 0; i < u.NumFields(); i++ {
				fl := u.Field(i)
				if _, isStruct := fl.Type().Underlying().(*types.Struct); isStruct {
					continue
				}
				ws["F!"+tn+"!"+fl.Name()] = sortOf(fl.Type())
			}
		case *types.Array:
			s := sortOf(u.Elem())
			ws[elemArrName(s)] = "(Array Int " + s + ")"
		default:
			s := sortOf(et)
			ws["C!"+sortTag(s)] = s
		}
	case *ssa.MakeSlice:
		s := sortOf(x.Type().Underlying().(*types.Slice).Elem())
		ws[elemArrName(s)] = "(Array Int " + s + ")"
	case *ssa.MakeMap:
		mt := x.Type().Underlying().(*types.Map)
		has, _, ks, _ := mapArrNames(mt)
		ws[has] = "(Array " + ks + " Bool)"
		ws["G!map!len"] = "Int"
	case *ssa.MakeChan:
		ws["G!chan!len"] = "Int"
		ws["G!chan!cap"] = "Int"
		ws["G!chan!closed"] = "Bool"
	case *ssa.Range:
		ws["G!iter!pos"] = "Int"
		if mt, ok := x.X.Type().Underlying().(*types.Map); ok {
			ks := sortOf(mt.Key())
			ws["G!iter!visited!"+sortTag(ks)] = "(Array " + ks + " Bool)"
		}
	}
}

func (g *Gen) addrWrites(addr ssa.Value, ws map[string]string) {
	switch a := addr.(type) {
	case *ssa.FieldAddr:
		stt, bt := g.structOf(a.X.Type())
		if stt == nil {
			return
		}
		fl := stt.Field(a.Field)
		tn := g.W.typeName(bt)
		if sub, isStruct := fl.Type().Underlying().(*types.Struct); isStruct {
			stn := g.W.typeName(fl.Type())
			for i := 0; i < sub.NumFields(); i++ {
				ws["F!"+stn+"!"+sub.Field(i).Name()] = sortOf(sub.Field(i).Type())
			}
			return
		}
		ws["F!"+tn+"!"+fl.Name()] = sortOf(fl.Type())
	case *ssa.IndexAddr:
		switch u := a.X.Type().Underlying().(type) {
		case *types.Slice:
			s := sortOf(u.Elem())
			ws[elemArrName(s)] = "(Array Int " + s + ")"
		case *types.Pointer:
			at := u.Elem().Underlying().(*types.Array)
			if fa, ok := a.X.(*ssa.FieldAddr); ok {
				g.addrWrites(fa, ws)
				return
			}
			s := sortOf(at.Elem())
			ws[elemArrName(s)] = "(Array Int " + s + ")"
		}
	case *ssa.Global:
	default:
		if pt, ok := addr.Type().Underlying().(*types.Pointer); ok {
			et := pt.Elem()
			switch u := et.Underlying().(type) {
			case *types.Struct:
				tn := g.W.typeName(et)
				for i := 0; i < u.NumFields(); i++ {
					ws["F!"+tn+"!"+u.Field(i).Name()] = sortOf(u.Field(i).Type())
				}
			case *types.Array:
				s := sortOf(u.Elem())
				ws[elemArrName(s)] = "(Array Int " + s + ")"
			default:
				s := sortOf(et)
				ws["C!"+sortTag(s)] = s
			}
		}
	}
}

func (g *Gen) callWrites(c *ssa.CallCommon, ws map[string]string, depth int, seen map[*ssa.Function]bool) {
	var key string
	var fn *ssa.Function
	if c.IsInvoke() {
		key = g.W.typeName(c.Value.Type()) + "." + c.Method.Name()
	} else if sf := c.StaticCallee(); sf != nil {
		key = g.W.relName(sf)
		fn = sf
	} else if b, ok := c.Value.(*ssa.Builtin); ok {
		switch b.Name() {
		case "append", "copy":
			if len(c.Args) > 0 {
				if sl, ok := c.Args[0].Type().Underlying().(*types.Slice); ok {
					s := sortOf(sl.Elem())
					ws[elemArrName(s)] = "(Array Int " + s + ")"
				}
			}
			ws["alloc"] = "Bool"
		case "delete":
			if mt, ok := c.Args[0].Type().Underlying().(*types.Map); ok {
				has, _, ks, _ := mapArrNames(mt)
				ws[has] = "(Array " + ks + " Bool)"
				ws["G!map!len"] = "Int"
			}
		case "close":
			ws["G!chan!closed"] = "Bool"
		}
		return
	} else {
		// dynamic function value: look for a funcfield stub
		if u, ok := c.Value.(*ssa.UnOp); ok {
			if fa, ok := u.X.(*ssa.FieldAddr); ok {
				stt, bt := g.structOf(fa.X.Type())
				if stt != nil {
					key = "funcfield:" + g.W.typeName(bt) + "." + stt.Field(fa.Field).Name()
				}
			}
		}
	}
	if con := g.W.db.Contracts[key]; con != nil && !con.Inline {
		g.contractWrites(con, c, ws)
		return
	}
	if fn != nil && g.W.inPkg(fn) && len(fn.Blocks) > 0 && depth < maxInlineDepth+1 && !seen[fn] {
		seen[fn] = true
		for _, b := range fn.Blocks {
			g.blockWrites(b, ws, depth+1, seen)
		}
		delete(seen, fn)
		return
	}
	// external without stub: slices handed over may be written
	for _, a := range c.Args {
		if sl, ok := a.Type().Underlying().(*types.Slice); ok {
			s := sortOf(sl.Elem())
			ws[elemArrName(s)] = "(Array Int " + s + ")"
		}
		if pt, ok := a.Type().Underlying().(*types.Pointer); ok {
			if _, isStruct := pt.Elem().Underlying().(*types.Struct); !isStruct {
				if _, isArr := pt.Elem().Underlying().(*types.Array); !isArr {
					s := sortOf(pt.Elem())
					ws["C!"+sortTag(s)] = s
				}
			}
		}
	}
}

// contractWrites: heap arrays named by a contract's modifies/fresh clauses (type-level, index-insensitive).
func (g *Gen) contractWrites(con *Contract, c *ssa.CallCommon, ws map[string]string) {
	// build a typing-only environment
	env := &Env{g: g, vars: map[string]Val{}, heap: &Heap{cur: map[string]string{}}}
	var argTypes []types.Type
	if c.IsInvoke() {
		argTypes = append(argTypes, c.Value.Type())
	}
	for _, a := range c.Args {
		argTypes = append(argTypes, a.Type())
	}
	if mc, ok := c.Value.(*ssa.MakeClosure); ok {
		for _, b := range mc.Bindings {
			argTypes = append(argTypes, b.Type())
		}
		fn := mc.Fn.(*ssa.Function)
		for i, fv := range fn.FreeVars {
			if i < len(mc.Bindings) {
				env.vars[fv.Name()] = Val{T: "dummy!" + fv.Name(), Ty: mc.Bindings[i].Type()}
			}
		}
	}
	for i, n := range con.Params {
		if i < len(argTypes) {
			env.vars[n] = Val{T: "dummy!" + n, Ty: argTypes[i]}
		}
	}
	rt := c.Signature().Results()
	for i, n := range con.Results {
		if i < rt.Len() {
			env.vars[n] = Val{T: "dummy!" + n, Ty: rt.At(i).Type()}
		}
	}
	if rt.Len() == 1 {
		env.vars["result"] = Val{T: "dummy!result", Ty: rt.At(0).Type()}
	}
	snap := g.snap()
	ne := len(g.errs)
	for _, m := range g.resolveMods(con, env) {
		ws[m.arr] = m.sort
	}
	var keepErrs []string
	if len(g.errs) > ne {
		keepErrs = append(keepErrs, g.errs[ne:]...)
	}
	defer func() { g.errs = append(g.errs, keepErrs...) }()
	for _, fr := range con.Fresh {
		if i := strings.Index(fr, " if "); i >= 0 {
			fr = strings.TrimSpace(fr[:i])
		}
		ws["alloc"] = "Bool"
		if v, ok := env.vars[fr]; ok {
			if stt, _ := g.structOf(v.Ty); stt == nil {
				tn := g.W.typeName(v.Ty)
				for _, gf := range g.W.db.Ghosts {
					if gf.Owner == tn {
						ws["G!"+tn+"!"+gf.Name] = sortOf(g.W.mustType(gf.Type))
					}
				}
			}
			if stt, bt := g.structOf(v.Ty); stt != nil {
				tn := g.W.typeName(bt)
				for i := 0; i < stt.NumFields(); i++ {
					fl := stt.Field(i)
					if _, isStruct := fl.Type().Underlying().(*types.Struct); isStruct {
						continue
					}
					ws["F!"+tn+"!"+fl.Name()] = sortOf(fl.Type())
				}
				for _, gf := range g.W.db.Ghosts {
					if gf.Owner == tn {
						ws["G!"+tn+"!"+gf.Name] = sortOf(g.W.mustType(gf.Type))
					}
				}
			}
		}
	}
	// drop any declarations made while typing (they referred to dummy terms)
	g.restore(snap)
}

func sortedSet(m map[string]bool) []string {
	var out []string
	for k := range m {
		out = append(out, k)
	}
	sort.Strings(out)
	return out
}
