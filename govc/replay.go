package main

// Replay of solver counterexamples on the real code: the model is projected to the
// function's pre-state, the real function is run on it inside an in-package test injected
// with `go test -overlay` (nothing is written to the repository), and the failed clause is
// evaluated with the Go back end of the same spec functions.

import (
	"encoding/json"
	"fmt"
	"os"
	"os/exec"
	"path/filepath"
	"strconv"
	"strings"
	"time"
)

// registerReplayInputs adds model terms worth extracting for functions that have a replay harness.
func (g *Gen) registerReplayInputs() {
	switch g.fnName {
	case "(*dataReader).Read":
		h0 := func(a string) string { return "H0!" + a }
		need := []string{"F!dataReader!r", "F!dataReader!state", "F!dataReader!limited", "F!dataReader!n", "G!bufio.Reader!in", "G!bufio.Reader!pos", "G!dataReader!start"}
		for _, a := range need {
			if !g.declared[h0(a)] {
				return
			}
		}
		rd := "(select H0!F!dataReader!r p_r)"
		pos := "(select H0!G!bufio.Reader!pos " + rd + ")"
		in := "(select H0!G!bufio.Reader!in " + rd + ")"
		g.inputs = append(g.inputs,
			InputTerm{"r.state", "(select H0!F!dataReader!state p_r)"},
			InputTerm{"r.limited", "(select H0!F!dataReader!limited p_r)"},
			InputTerm{"r.n", "(select H0!F!dataReader!n p_r)"},
			InputTerm{"len(b)", "(s-len p_b)"},
			InputTerm{"pos", pos},
			InputTerm{"start", "(select H0!G!dataReader!start p_r)"})
		if g.declared["sf!dS"] {
			g.inputs = append(g.inputs, InputTerm{"spec.state", "(sf!dS " + in + " (select H0!G!dataReader!start p_r) " + pos + ")"})
		}
		for k := 0; k < 12; k++ {
			g.inputs = append(g.inputs, InputTerm{fmt.Sprintf("in[pos+%d]", k), fmt.Sprintf("(select %s (+ %s %d))", in, pos, k)})
		}
	case "(*lineLimitReader).Read":
		for _, a := range []string{"F!lineLimitReader!LineLimit", "F!lineLimitReader!curLineLength"} {
			if !g.declared["H0!"+a] {
				return
			}
		}
		g.inputs = append(g.inputs,
			InputTerm{"r.LineLimit", "(select H0!F!lineLimitReader!LineLimit p_r)"},
			InputTerm{"r.curLineLength", "(select H0!F!lineLimitReader!curLineLength p_r)"},
			InputTerm{"len(b)", "(s-len p_b)"})
	}
}

// registerLoopReplayInputs: the state at a loop head is also a legal pre-state of a fresh call
// (the loop invariant mirrors the representation invariant), so counterexamples to
// loop-preservation obligations are replayed from it.
func (g *Gen) registerLoopReplayInputs(ordinal int, h *Heap) {
	if g.fnName != "(*dataReader).Read" || ordinal != 1 {
		return
	}
	for _, a := range []string{"F!dataReader!r", "G!bufio.Reader!in", "G!dataReader!start"} {
		if !g.declared["H0!"+a] {
			return
		}
	}
	rd := "(select H0!F!dataReader!r p_r)"
	pos := "(select " + g.arr(h, "G!bufio.Reader!pos", "Int") + " " + rd + ")"
	in := "(select H0!G!bufio.Reader!in " + rd + ")"
	g.inputs = append(g.inputs,
		InputTerm{"loop.r.state", "(select " + g.arr(h, "F!dataReader!state", "Int") + " p_r)"},
		InputTerm{"loop.pos", pos})
	if g.declared["sf!dS"] {
		g.inputs = append(g.inputs, InputTerm{"loop.spec.state", "(sf!dS " + in + " (select H0!G!dataReader!start p_r) " + pos + ")"})
	}
	for k := 0; k < 4; k++ {
		g.inputs = append(g.inputs, InputTerm{fmt.Sprintf("loop.in[pos+%d]", k), fmt.Sprintf("(select %s (+ %s %d))", in, pos, k)})
	}
}

func modelInt(m map[string]string, k string, def int64) int64 {
	v, ok := m[k]
	if !ok {
		return def
	}
	i, err := strconv.ParseInt(strings.TrimSpace(v), 10, 64)
	if err != nil {
		return def
	}
	return i
}

func runOverlayTest(repo, name, src string, timeout time.Duration) (string, error) {
	dir, err := os.MkdirTemp("", "govc-replay")
	if err != nil {
		return "", err
	}
	defer os.RemoveAll(dir)
	tf := filepath.Join(dir, name)
	if err := os.WriteFile(tf, []byte(src), 0o644); err != nil {
		return "", err
	}
	ov := map[string]map[string]string{"Replace": {filepath.Join(repo, name): tf}}
	ovb, _ := json.Marshal(ov)
	ovf := filepath.Join(dir, "overlay.json")
	os.WriteFile(ovf, ovb, 0o644)
	cmd := exec.Command("go", "test", "-overlay", ovf, "-vet=off", "-count=1", "-timeout", "60s", "-run", "^TestGovcReplay$", "-v", ".")
	cmd.Dir = repo
	cmd.Env = append(os.Environ(), "GOFLAGS=-mod=mod", "GOPROXY=off", "GOSUMDB=off", "GOTOOLCHAIN=local")
	done := make(chan struct{})
	var out []byte
	go func() { out, err = cmd.CombinedOutput(); close(done) }()
	select {
	case <-done:
	case <-time.After(timeout):
		if cmd.Process != nil {
			cmd.Process.Kill()
		}
		<-done
		return string(out), fmt.Errorf("replay timed out")
	}
	return string(out), err
}

// replayOnRealCode tries to reproduce a solver counterexample on the real code.
func replayOnRealCode(run *checkRun, o *Obligation, base string) (string, bool) {
	switch o.Func {
	case "(*dataReader).Read":
		return replayDataReader(run, o)
	case "(*lineLimitReader).Read":
		return replayLineLimiter(run, o)
	}
	return "replay: no replay harness for this function shape (handler-level obligation)\n", false
}

func replayDataReader(run *checkRun, o *Obligation) (string, bool) {
	m := o.Model
	pfx := ""
	if o.Kind == "loop-preserve" || o.Kind == "loop-init" {
		pfx = "loop."
	}
	state := modelInt(m, pfx+"r.state", 0)
	limited := m["r.limited"] == "true"
	n := modelInt(m, "r.n", 0)
	lb := modelInt(m, "len(b)", 4)
	spec := modelInt(m, pfx+"spec.state", state)
	if pfx != "" {
		limited = false // the budget is not part of the loop cells
	}
	if lb < 1 || lb > 64 {
		lb = 8
	}
	if state < 0 || state > 5 || spec < 0 || spec > 5 {
		return "replay: model has an out-of-range reader state; not replayable\n", false
	}
	var stream []string
	kmax := 12
	if pfx != "" {
		kmax = 4
	}
	for k := 0; k < kmax; k++ {
		v := modelInt(m, fmt.Sprintf("%sin[pos+%d]", pfx, k), 'x')
		stream = append(stream, fmt.Sprint(byte(v)))
	}
	src := fmt.Sprintf(`package smtp

import (
	"bufio"
	"bytes"
	"fmt"
	"io"
	"testing"
)
%s
// The real reader is started in the pre-state of the counterexample and run to the end of
// the stream; the reference is the RFC 5321 transducer (Go back end of /verif/spec/10_data.gspec)
// started in the corresponding spec state. Octets after the first one are not constrained by
// a loop-cell counterexample, so distinguishing continuations are tried as well.
func TestGovcReplay(t *testing.T) {
	model := []byte{%s}
	state, limited, budget, lb, specState := %d, %v, int64(%d), %d, int64(%d)
	conts := [][]byte{model[1:], []byte("\n.\r\nX"), []byte("\r\n.\r\nX"), []byte(".\r\nX"), []byte("x\r\n.\r\nX"), []byte("\rx\r\n.\r\n"), []byte("\n")}
	reproduced := false
	for _, cont := range conts {
		stream := append([]byte{model[0]}, cont...)
		r := &dataReader{r: bufio.NewReader(bytes.NewReader(stream)), state: state, limited: limited, n: budget}
		flushed := state == 4 && specState == 2
		var got []byte
		var err error
		for err == nil {
			b := make([]byte, lb)
			var k int
			k, err = r.Read(b)
			got = append(got, b[:k]...)
			if k == 0 && err == nil {
				break
			}
		}
		consumed := len(stream) - r.r.Buffered()
		var want []byte
		s := specState
		for i := 0; i < consumed; i++ {
			c := int64(stream[i])
			e := spec_dotEmit(s, c)
			if e >= 1 && !(i == 0 && flushed) {
				want = append(want, byte(spec_dotOut1(s, c)))
			}
			if e == 2 {
				want = append(want, byte(c))
			}
			s = spec_dotNext(s, c)
		}
		if limited && int64(len(want)) > budget {
			want = want[:budget]
		}
		endOK := int64(r.state) == s || (r.state == 4 && s == 2)
		if r.state == 4 && s == 2 && !(limited && int64(len(got)) >= budget) {
			want = append(want, 13)
		}
		eofOK := !(err == io.EOF && s != 5) && !(s == 5 && err != io.EOF && !limited)
		if err == ErrDataTooLarge {
			// limit transparency: the refusal is justified only if the message really has another octet
			s2, more := s, false
			for i := consumed; i < len(stream) && s2 != 5; i++ {
				if spec_dotEmit(s2, int64(stream[i])) > 0 {
					more = true
					break
				}
				s2 = spec_dotNext(s2, int64(stream[i]))
			}
			if !more && s2 == 5 {
				fmt.Printf("REPLAY the message ends here (only the end marker follows) but the reader reports ErrDataTooLarge\n")
				eofOK = false
			}
		}
		if !bytes.Equal(got, want) || !endOK || !eofOK {
			fmt.Printf("REPLAY input stream=%%q reader state=%%d spec state=%%d limited=%%v n=%%d len(b)=%%d\n", stream, state, specState, limited, budget, lb)
			fmt.Printf("REPLAY real code: output=%%q err=%%v final state=%%d consumed=%%d\n", got, err, r.state, consumed)
			fmt.Printf("REPLAY specification: output=%%q final state=%%d\n", want, s)
			reproduced = true
			break
		}
	}
	if reproduced {
		fmt.Println("REPLAY-RESULT: reproduced (real code disagrees with the specification on this input)")
	} else {
		fmt.Printf("REPLAY tried %%d continuations of first octet %%q from reader state %%d / spec state %%d\n", len(conts), model[0], state, specState)
		fmt.Println("REPLAY-RESULT: not reproduced")
	}
}
`, specGoSource(run.w.db), strings.Join(stream, ", "), state, limited, n, lb, spec)
	out, err := runOverlayTest(run.w.repo, "govc_replay_test.go", src, 90*time.Second)
	var keep []string
	for _, l := range strings.Split(out, "\n") {
		if strings.HasPrefix(l, "REPLAY") {
			keep = append(keep, l)
		}
	}
	rep := "replay on the real code (go test -overlay, nothing written to the repository):\n" + strings.Join(keep, "\n") + "\n"
	if len(keep) == 0 {
		rep += "replay produced no result: " + truncate(out, 1500) + "\n"
		if err != nil {
			rep += err.Error() + "\n"
		}
		return rep, false
	}
	return rep, strings.Contains(out, "REPLAY-RESULT: reproduced")
}

func runSelftest(verif, repo string, args []string, verbose bool) int {
	return selftest(verif, repo, args, verbose)
}

// replayLineLimiter: the verifier's model fixes the pre-state of the limiter (limit, run length so
// far, size of the caller's buffer); what the underlying reader returns is havoc in the model, so the
// replay searches it: the real Read is run from that pre-state on every source over {LF, x} of up to
// 7 octets (scaled down to a limit of at most 6 so that the search is exhaustive), and every clause
// of the contract is evaluated on the outcome by a Go oracle written from the contract text.
func replayLineLimiter(run *checkRun, o *Obligation) (string, bool) {
	m := o.Model
	limit := modelInt(m, "r.LineLimit", -1)
	cur := modelInt(m, "r.curLineLength", 0)
	lb := modelInt(m, "len(b)", 4)
	grid := limit < 0 // no model (the solver gave no counterexample): search a grid of pre-states instead
	if limit < 0 {
		limit = 0
	}
	if limit > 6 {
		// keep the distance of the run length to the limit
		d := limit - cur
		limit = 6
		cur = limit - d
	}
	if cur < 0 {
		cur = 0
	}
	if cur > limit+2 {
		cur = limit + 2
	}
	if lb < 1 || lb > 8 {
		lb = 8
	}
	src := fmt.Sprintf(`package smtp

import (
	"bytes"
	"fmt"
	"testing"
)

func govcRun(a []byte, c0 int, i int) int {
	c := c0
	for k := 0; k < i; k++ {
		if a[k] == 10 {
			c = 0
		}
		c++
	}
	return c
}

func TestGovcReplay(t *testing.T) {
	type pre struct{ limit, cur0, lb int }
	pres := []pre{{%d, %d, %d}}
	if %v {
		pres = nil
		for l := 0; l <= 4; l++ {
			for c := 0; c <= l+2; c++ {
				for _, b := range []int{1, 3, 8} {
					pres = append(pres, pre{l, c, b})
				}
			}
		}
	}
	var srcs [][]byte
	var rec func(p []byte)
	rec = func(p []byte) {
		srcs = append(srcs, append([]byte{}, p...))
		if len(p) == 7 {
			return
		}
		rec(append(p, 10))
		rec(append(p, 'x'))
	}
	rec(nil)
	tried := 0
	for _, p := range pres {
	limit, cur0, lb := p.limit, p.cur0, p.lb
	for _, s := range srcs {
		if len(s) == 0 {
			continue
		}
		tried++
		r := &lineLimitReader{R: bytes.NewReader(s), LineLimit: limit, curLineLength: cur0}
		b := make([]byte, lb)
		n, err := r.Read(b)
		got := len(s) // what the source handed over is still in b
		if lb < got {
			got = lb
		}
		bad := ""
		switch {
		case n < 0 || n > len(b):
			bad = "count"
		case cur0 > limit && limit > 0 && !(err == ErrTooLongLine && n == 0):
			bad = "sticky"
		case err == ErrTooLongLine && !(limit > 0 && n == 0 && cur0 > limit):
			bad = "refusal-justified"
		case limit == 0 && (r.curLineLength != cur0 || err == ErrTooLongLine):
			bad = "unlimited-transparent"
		}
		if bad == "" && err == nil && limit > 0 {
			for k := 0; k <= n; k++ {
				if govcRun(b, cur0, k) > limit {
					bad = "delivered-within-limit"
				}
			}
			if bad == "" && r.curLineLength <= limit && r.curLineLength != govcRun(b, cur0, n) {
				bad = "tracks-run"
			}
			if bad == "" && r.curLineLength > limit && cur0 <= limit {
				over := false
				for k := 1; k <= got; k++ {
					if govcRun(b, cur0, k) > limit {
						over = true
					}
				}
				if !over {
					bad = "limit-passed-only-by-a-too-long-run"
				} else if n != 0 && b[n-1] != 10 {
					bad = "nothing-of-the-too-long-line-is-handed-out"
				}
			}
		}
		if bad != "" {
			fmt.Printf("REPLAY clause %%s fails on the real code\n", bad)
			fmt.Printf("REPLAY pre-state: LineLimit=%%d curLineLength=%%d len(b)=%%d; the underlying reader returns %%q\n", limit, cur0, lb, s)
			fmt.Printf("REPLAY real code: n=%%d err=%%v curLineLength=%%d rest=%%q b=%%q\n", n, err, r.curLineLength, r.rest, b[:got])
			fmt.Println("REPLAY-RESULT: reproduced (real code violates the contract on this input)")
			return
		}
	}
	}
	fmt.Printf("REPLAY searched %%d runs from %%d pre-states: no clause fails\n", tried, len(pres))
	fmt.Println("REPLAY-RESULT: not reproduced")
}
`, limit, cur, lb, grid)
	out, err := runOverlayTest(run.w.repo, "zz_govc_replay_test.go", src, 90*time.Second)
	var keep []string
	for _, l := range strings.Split(out, "\n") {
		if strings.HasPrefix(l, "REPLAY") {
			keep = append(keep, l)
		}
	}
	if len(keep) == 0 {
		msg := ""
		if err != nil {
			msg = err.Error()
		}
		return "replay: the harness did not run: " + msg + "\n" + truncate(out, 1500) + "\n", false
	}
	rep := "replay on the real code (go test -overlay, nothing written to the repository; model-guided exhaustive search of what the underlying reader returns):\n" + strings.Join(keep, "\n") + "\n"
	return rep, strings.Contains(out, "REPLAY-RESULT: reproduced")
}
