package main

import (
	"bytes"
	"context"
	"os/exec"
	"regexp"
	"strings"
	"sync"
	"time"
)

type solverSpec struct {
	name string
	args []string
}

var solvers = []solverSpec{
	{"z3-new", []string{"z3-new", "-in", "-smt2"}},
	{"z3", []string{"z3", "-in", "-smt2"}},
	{"cvc5", []string{"cvc5", "--lang", "smt2", "--produce-models", "--full-saturate-quant"}},
}

type solveResult struct {
	status  string // unsat, sat, unknown, timeout, error
	solver  string
	seconds float64
	output  string
}

func runSolver(sp solverSpec, query string, timeout time.Duration) solveResult {
	ctx, cancel := context.WithTimeout(context.Background(), timeout)
	defer cancel()
	q := query
	if sp.name == "cvc5" {
		// cvc5 needs produce-models before set-logic (already first) and does not know z3-specific options
		q = strings.Replace(q, "(set-option :produce-models true)\n", "", 1)
		q = "(set-option :produce-models true)\n" + q
	}
	cmd := exec.CommandContext(ctx, sp.args[0], sp.args[1:]...)
	cmd.Stdin = strings.NewReader(q)
	var out bytes.Buffer
	cmd.Stdout = &out
	cmd.Stderr = &out
	t0 := time.Now()
	err := cmd.Run()
	dt := time.Since(t0).Seconds()
	text := out.String()
	// drop solver warnings in front of the answer
	for strings.HasPrefix(text, "WARNING") || strings.HasPrefix(text, "(warning") {
		i := strings.Index(text, "\n")
		if i < 0 {
			break
		}
		text = text[i+1:]
	}
	first := strings.TrimSpace(strings.SplitN(text, "\n", 2)[0])
	res := solveResult{solver: sp.name, seconds: dt, output: text}
	switch {
	case first == "unsat":
		res.status = "unsat"
	case first == "sat":
		res.status = "sat"
	case first == "unknown":
		res.status = "unknown"
	case ctx.Err() != nil:
		res.status = "timeout"
	default:
		_ = err
		res.status = "error"
	}
	return res
}

// discharge decides one obligation: first z3-new; on unknown/timeout the other solvers in parallel.
func discharge(o *Obligation, quickTimeout, slowTimeout time.Duration, all bool) {
	if o.gen == nil {
		return // decided by the generator's own dataflow (ownership obligations)
	}
	q := o.query(true)
	want := "unsat"
	if o.Cover {
		want = "sat"
	}
	r := runSolver(solvers[0], q, quickTimeout)
	results := []solveResult{r}
	if r.status != "unsat" && r.status != "sat" || all {
		var wg sync.WaitGroup
		rs := make([]solveResult, len(solvers)-1)
		for i, sp := range solvers[1:] {
			wg.Add(1)
			go func(i int, sp solverSpec) {
				defer wg.Done()
				rs[i] = runSolver(sp, q, slowTimeout)
			}(i, sp)
		}
		wg.Wait()
		results = append(results, rs...)
	}
	// pick: a definite answer wins; disagreement between definite answers is an error
	var def *solveResult
	disagree := false
	for i := range results {
		x := &results[i]
		if x.status == "unsat" || x.status == "sat" {
			if def == nil {
				def = x
			} else if def.status != x.status {
				disagree = true
			}
		}
	}
	total := 0.0
	for _, x := range results {
		total += x.seconds
	}
	switch {
	case disagree:
		o.Status = "error"
		o.Solver = "disagreement"
		o.Output = "solvers disagree:\n"
		for _, x := range results {
			o.Output += x.solver + ": " + x.status + "\n"
		}
	case def != nil:
		o.Status = def.status
		o.Solver = def.solver
		o.Output = def.output
	default:
		o.Status = results[0].status
		o.Solver = results[0].solver
		o.Output = ""
		for _, x := range results {
			o.Output += x.solver + ": " + x.status + "\n" + truncate(x.output, 2000) + "\n"
		}
	}
	o.Seconds = total
	if o.Status == "sat" {
		o.Model = parseValues(o)
	}
	_ = want
}

func truncate(s string, n int) string {
	if len(s) > n {
		return s[:n] + "..."
	}
	return s
}

// ok reports whether the obligation is discharged (or, for cover obligations, satisfiable).
func (o *Obligation) ok() bool {
	if o.Cover {
		return o.Status == "sat"
	}
	return o.Status == "unsat"
}

var reNeg = regexp.MustCompile(`\(-\s+(\d+)\)`)

// parseValues extracts (term value) pairs from a get-value answer.
func parseValues(o *Obligation) map[string]string {
	m := map[string]string{}
	out := o.Output
	i := strings.Index(out, "\n")
	if i < 0 {
		return m
	}
	body := strings.TrimSpace(out[i+1:])
	// body is "((t1 v1) (t2 v2) ...)"; match our input terms in order
	pos := 0
	for _, it := range o.Inputs {
		k := strings.Index(body[pos:], "("+it.Term+" ")
		if k < 0 {
			continue
		}
		start := pos + k + len(it.Term) + 2
		// value extends to the matching close paren of the pair
		depth := 1
		j := start
		for j < len(body) && depth > 0 {
			switch body[j] {
			case '(':
				depth++
			case ')':
				depth--
			}
			j++
		}
		val := strings.TrimSpace(body[start : j-1])
		val = reNeg.ReplaceAllString(val, "-$1")
		m[it.Name] = val
		pos = j
	}
	return m
}

// dischargeAll runs obligations on a pool of workers.
func dischargeAll(obls []*Obligation, workers int, quickTimeout, slowTimeout time.Duration, all bool) {
	ch := make(chan *Obligation)
	var wg sync.WaitGroup
	for i := 0; i < workers; i++ {
		wg.Add(1)
		go func() {
			defer wg.Done()
			for o := range ch {
				discharge(o, quickTimeout, slowTimeout, all)
			}
		}()
	}
	for _, o := range obls {
		ch <- o
	}
	close(ch)
	wg.Wait()
}
