package main

// Parser for contract files (//@-prefixed comments in /repo/contracts_verif.go)
// and spec files (/verif/spec/*.gspec, same directives without the prefix).

import (
	"fmt"
	"os"
	"regexp"
	"strconv"
	"strings"
)

type Clause struct {
	Kind  string // requires, ensures, invariant, assert
	Label string
	Props []string // property tags; empty = inherit from contract
	E     Expr
	Src   string
	File  string
	Line  int
	// Assumed: an `assumes` clause - a postcondition that callers may use but that is not proved of the body
	// (library behaviour the body relies on); listed in the evidence as an assumption, never counted as discharged.
	Assumed bool
}

type LoopSpec struct {
	N        int
	Invs     []*Clause
	Modifies []string // extra heap arrays to havoc, rarely needed
	Splits   []*Split
	BackEdge []*Clause // proved on every back edge (with the locals of the iteration), never assumed
}

// Split partitions the preservation obligations of the named invariants into cells.
type Split struct {
	Name string
	On   []string // invariant labels; empty = all labelled invariants
	Alts []SplitAlt
}

type SplitAlt struct {
	Label string
	E     Expr
	Src   string
}

type Param struct{ Name, Type string }

type Contract struct {
	Name     string // SSA RelString name, e.g. (*dataReader).Read
	Params   []string
	Results  []string
	Props    []string
	Requires []*Clause
	Ensures  []*Clause
	Modifies []string // location expressions (source text)
	Fresh    []string // result names that are freshly allocated ("name" or "name if cond")
	Loops    map[int]*LoopSpec
	Stub     bool   // trusted contract of a function outside the verified set
	Trusted  string // reason / description for stubs
	MayPanic bool   // explicit panic in the body is part of the API (not a safety failure)
	Pure     bool
	NoOverflow string // reason: overflow obligations not generated (listed as assumption)
	OnlyUse    map[string][]string // `onlyuse p: callee, callee`: parameter p is handed to these callees and used for nothing else
	OnlyUseProps map[string][]string
	Inline   bool   // force inlining instead of using this contract at call sites (contract still verified)
	Thread   string // thread root name for ownership analysis
	File     string
	Line     int
	Uses     []string // lemma instantiations "name(args)" assumed at entry (after being proved separately)
	Ghostsets []GhostSet // ghost assignments executed at every return (ghost code kept in the contract)
	Before   map[string][]*Clause // call-site assertions keyed by callee, evaluated with the locals visible at the call
	Joins    []JoinSpec // channel hand-off from a spawned closure (see DESIGN.md 2.3 "Closures and go")
	RecvObl  map[int][]*Clause // obligations at the N-th channel receive (SSA order): $ch is the channel, locals visible
	OnRecv   []*Clause // ASSUMED of every error value received from a channel in this function ($v); listed as assumption
}

type JoinSpec struct {
	ChanLocal string // local variable holding the completion channel
	Closure   string // contract name of the spawned closure
}

type GhostSet struct {
	Loc string
	E   Expr
	Src string
}

type SpecFunc struct {
	Name   string
	Params []Param
	Ret    string
	Body   Expr // nil for uninterpreted
	Rec    bool
	Quant  bool // qrec func: applications under a quantifier get the definition as a quantified, triggered axiom
	Src    string
	Also   []Expr // companion facts asserted whenever the function is unfolded (definitional axioms of auxiliary ufuncs)
	AlsoSrc []string
}

type GhostField struct {
	Owner    string // Go type name, e.g. Conn or bufio.Reader
	Name     string
	Type     string
	Volatile bool // not subject to frame conditions: every contracted call may change it (callers forget its value)
}

type Axiom struct {
	Name string
	E    Expr
	Src  string
}

type Lemma struct {
	Name     string
	Params   []Param
	Requires []*Clause
	Ensures  []*Clause
	Props    []string
	Induct   string // "by induction on x": x >= base; hypothesis for x-1 assumed
}

type SpecDB struct {
	Contracts map[string]*Contract
	Order     []string
	Funcs     map[string]*SpecFunc
	FuncOrder []string
	Ghosts    []*GhostField
	Axioms    []*Axiom
	Lemmas    []*Lemma
	Consts    map[string]int64
	Owners    []OwnerDecl
	CallHolds []CallHold
	Classes   map[string]*StrClass
	ClassOrder []string
}

// StrClass: a character class predicate on strings, "every octet satisfies P(c)".
type StrClass struct {
	Name string
	P    Expr // over the octet c
	Src  string
}

// CallHold: "callsite <Type.Method> in <function>: holds <Type.mutex>" - the call happens inside a
// critical section of that mutex (check-then-act on shared state stays atomic).
type CallHold struct {
	Callee, Func, Guard string
}

type OwnerDecl struct {
	Field string // Type.field
	Rule  string // immutable | cmdloop | guarded-by X | captured ...
}

func newSpecDB() *SpecDB {
	return &SpecDB{Contracts: map[string]*Contract{}, Funcs: map[string]*SpecFunc{}, Consts: map[string]int64{}, Classes: map[string]*StrClass{}}
}

var reClauseHead = regexp.MustCompile(`^(requires|ensures|assumes|invariant)\s+((?:@[A-Z0-9,]+\s+)?)((?:[A-Za-z_][A-Za-z0-9_\-]*:\s+)?)(.*)$`)
var reContractHead = regexp.MustCompile(`^(contract|stub)\s+(\S+)\s*\(([^)]*)\)\s*(?:\(([^)]*)\))?\s*$`)
var reFuncHead = regexp.MustCompile(`^(qrec func|rec func|func|ufunc)\s+([A-Za-z_][A-Za-z0-9_]*)\s*\(([^)]*)\)\s*([^=]*?)\s*(?:=\s*(.*))?$`)

// splitContractHead: "contract (*T).M(a, b) (r, err)" -> [_, kind, name, params, results]
func splitContractHead(t string) []string {
	sp := strings.IndexByte(t, ' ')
	kind, rest := t[:sp], strings.TrimSpace(t[sp+1:])
	i := 0
	if strings.HasPrefix(rest, "(") { // receiver type
		i = strings.IndexByte(rest, ')')
		if i < 0 {
			return nil
		}
	}
	j := strings.IndexByte(rest[i:], '(')
	if j < 0 {
		return nil
	}
	j += i
	k := strings.IndexByte(rest[j:], ')')
	if k < 0 {
		return nil
	}
	k += j
	name, params, tail := strings.TrimSpace(rest[:j]), rest[j+1:k], strings.TrimSpace(rest[k+1:])
	results := ""
	if tail != "" {
		if !strings.HasPrefix(tail, "(") || !strings.HasSuffix(tail, ")") {
			return nil
		}
		results = tail[1 : len(tail)-1]
	}
	return []string{t, kind, name, params, results}
}

func splitList(s string) []string {
	var out []string
	for _, p := range strings.Split(s, ",") {
		p = strings.TrimSpace(p)
		if p != "" {
			out = append(out, p)
		}
	}
	return out
}

func parseParams(s string) []Param {
	var ps []Param
	for _, p := range splitList(s) {
		fs := strings.Fields(p)
		if len(fs) == 1 {
			ps = append(ps, Param{Name: fs[0], Type: "int"})
		} else {
			ps = append(ps, Param{Name: fs[0], Type: strings.Join(fs[1:], " ")})
		}
	}
	return ps
}

// loadSpecFile parses one file. prefix is "//@" for the contract file, "" for gspec.
func (db *SpecDB) loadSpecFile(path string, prefix string) error {
	data, err := os.ReadFile(path)
	if err != nil {
		return err
	}
	type lineT struct {
		text string
		no   int
	}
	var lines []lineT
	for i, raw := range strings.Split(string(data), "\n") {
		t := strings.TrimRight(raw, " \t\r")
		if prefix != "" {
			tt := strings.TrimSpace(t)
			if !strings.HasPrefix(tt, prefix) {
				continue
			}
			t = strings.TrimPrefix(tt, prefix)
		}
		// strip comments: '#' at start or ' // '
		ts := strings.TrimSpace(t)
		if ts == "" || strings.HasPrefix(ts, "#") {
			continue
		}
		if i := strings.Index(t, " // "); i >= 0 {
			t = t[:i]
		}
		if i := strings.Index(t, "  # "); i >= 0 {
			t = t[:i]
		}
		if strings.HasPrefix(strings.TrimSpace(t), "//") {
			continue
		}
		lines = append(lines, lineT{strings.TrimSpace(t), i + 1})
	}
	// join continuation lines: a line that does not start with a directive keyword continues the previous one
	kw := regexp.MustCompile(`^(contract|stub|qrec func|rec func|func|ufunc|ghost field|const|axiom|lemma|owner|callsite|strclass|prop|requires|ensures|assumes|invariant|modifies|fresh|loop|trusted|maypanic|pure|nooverflow|inline|thread|use|by induction|ghostset|also|split|before|onrecv|join|recv|backedge|onlyuse)\b`)
	var joined []lineT
	for _, l := range lines {
		if kw.MatchString(l.text) || len(joined) == 0 {
			joined = append(joined, l)
		} else {
			joined[len(joined)-1].text += " " + l.text
		}
	}

	var cur *Contract
	var curLoop *LoopSpec
	var curLemma *Lemma
	var lastFunc *SpecFunc
	fail := func(l lineT, f string, a ...interface{}) error {
		return fmt.Errorf("%s:%d: %s", path, l.no, fmt.Sprintf(f, a...))
	}
	for _, l := range joined {
		t := l.text
		switch {
		case strings.HasPrefix(t, "contract ") || strings.HasPrefix(t, "stub "):
			m := splitContractHead(t)
			if m == nil {
				return fail(l, "bad contract header %q", t)
			}
			cur = &Contract{Name: m[2], Params: splitList(m[3]), Results: splitList(m[4]), Loops: map[int]*LoopSpec{}, Stub: m[1] == "stub", File: path, Line: l.no}
			if _, dup := db.Contracts[cur.Name]; dup {
				return fail(l, "duplicate contract for %s", cur.Name)
			}
			db.Contracts[cur.Name] = cur
			db.Order = append(db.Order, cur.Name)
			curLoop = nil
			curLemma = nil
		case strings.HasPrefix(t, "qrec func ") || strings.HasPrefix(t, "rec func ") || strings.HasPrefix(t, "func ") || strings.HasPrefix(t, "ufunc "):
			m := reFuncHead.FindStringSubmatch(t)
			if m == nil {
				return fail(l, "bad func %q", t)
			}
			sf := &SpecFunc{Name: m[2], Params: parseParams(m[3]), Ret: strings.TrimSpace(m[4]), Rec: m[1] == "rec func" || m[1] == "qrec func", Quant: m[1] == "qrec func", Src: t}
			if sf.Ret == "" {
				sf.Ret = "int"
			}
			if m[1] != "ufunc" {
				if m[5] == "" {
					return fail(l, "func %s needs a body", sf.Name)
				}
				e, err := parseExpr(m[5])
				if err != nil {
					return fail(l, "%v", err)
				}
				sf.Body = stripParens(e)
			}
			if _, dup := db.Funcs[sf.Name]; dup {
				return fail(l, "duplicate func %s", sf.Name)
			}
			db.Funcs[sf.Name] = sf
			db.FuncOrder = append(db.FuncOrder, sf.Name)
			lastFunc = sf
			cur, curLoop, curLemma = nil, nil, nil
		case strings.HasPrefix(t, "strclass "):
			rest := strings.TrimPrefix(t, "strclass ")
			i := strings.Index(rest, "=")
			if i < 0 {
				return fail(l, "strclass NAME(c) = predicate")
			}
			name := strings.TrimSpace(strings.TrimSuffix(strings.TrimSpace(rest[:i]), "(c)"))
			e, err := parseExpr(rest[i+1:])
			if err != nil {
				return fail(l, "%v", err)
			}
			db.Classes[name] = &StrClass{Name: name, P: stripParens(e), Src: strings.TrimSpace(rest[i+1:])}
			db.ClassOrder = append(db.ClassOrder, name)
			cur, curLoop, curLemma = nil, nil, nil
		case strings.HasPrefix(t, "ghost field "):
			rest := strings.TrimPrefix(t, "ghost field ")
			i := strings.Index(rest, ":")
			if i < 0 {
				return fail(l, "bad ghost field")
			}
			on := strings.TrimSpace(rest[:i])
			j := strings.LastIndex(on, ".")
			if j < 0 {
				return fail(l, "bad ghost field owner")
			}
			gty := strings.TrimSpace(rest[i+1:])
			vol := false
			if strings.HasSuffix(gty, " volatile") {
				vol = true
				gty = strings.TrimSpace(strings.TrimSuffix(gty, " volatile"))
			}
			db.Ghosts = append(db.Ghosts, &GhostField{Owner: on[:j], Name: on[j+1:], Type: gty, Volatile: vol})
			cur, curLoop, curLemma = nil, nil, nil
		case strings.HasPrefix(t, "const "):
			fs := strings.Fields(strings.ReplaceAll(t, "=", " = "))
			if len(fs) != 4 {
				return fail(l, "bad const")
			}
			v, err := strconv.ParseInt(fs[3], 0, 64)
			if err != nil {
				return fail(l, "bad const value")
			}
			db.Consts[fs[1]] = v
		case strings.HasPrefix(t, "axiom "):
			rest := strings.TrimPrefix(t, "axiom ")
			i := strings.Index(rest, ":")
			if i < 0 {
				return fail(l, "bad axiom")
			}
			e, err := parseExpr(rest[i+1:])
			if err != nil {
				return fail(l, "%v", err)
			}
			db.Axioms = append(db.Axioms, &Axiom{Name: strings.TrimSpace(rest[:i]), E: stripParens(e), Src: rest[i+1:]})
			cur, curLoop, curLemma = nil, nil, nil
		case strings.HasPrefix(t, "lemma "):
			rest := strings.TrimPrefix(t, "lemma ")
			i := strings.Index(rest, "(")
			j := strings.LastIndex(rest, ")")
			if i < 0 || j < i {
				return fail(l, "bad lemma header")
			}
			curLemma = &Lemma{Name: strings.TrimSpace(rest[:i]), Params: parseParams(rest[i+1 : j])}
			db.Lemmas = append(db.Lemmas, curLemma)
			cur, curLoop = nil, nil
		case strings.HasPrefix(t, "by induction on "):
			if curLemma == nil {
				return fail(l, "induction outside lemma")
			}
			curLemma.Induct = strings.TrimSpace(strings.TrimPrefix(t, "by induction on "))
		case strings.HasPrefix(t, "callsite "):
			fs := strings.SplitN(strings.TrimPrefix(t, "callsite "), ":", 2)
			parts := strings.SplitN(fs[0], " in ", 2)
			if len(fs) != 2 || len(parts) != 2 || !strings.HasPrefix(strings.TrimSpace(fs[1]), "holds ") {
				return fail(l, "bad callsite decl (callsite <callee> in <func>: holds <mutex>)")
			}
			db.CallHolds = append(db.CallHolds, CallHold{Callee: strings.TrimSpace(parts[0]), Func: strings.TrimSpace(parts[1]), Guard: strings.TrimSpace(strings.TrimPrefix(strings.TrimSpace(fs[1]), "holds "))})
		case strings.HasPrefix(t, "owner "):
			fs := strings.SplitN(strings.TrimPrefix(t, "owner "), ":", 2)
			if len(fs) != 2 {
				return fail(l, "bad owner decl")
			}
			db.Owners = append(db.Owners, OwnerDecl{Field: strings.TrimSpace(fs[0]), Rule: strings.TrimSpace(fs[1])})
		case strings.HasPrefix(t, "prop "):
			ps := strings.Fields(strings.TrimPrefix(t, "prop "))
			if curLemma != nil {
				curLemma.Props = append(curLemma.Props, ps...)
			} else if cur != nil {
				cur.Props = append(cur.Props, ps...)
			} else {
				return fail(l, "prop outside contract")
			}
		case strings.HasPrefix(t, "requires ") || strings.HasPrefix(t, "ensures ") || strings.HasPrefix(t, "assumes ") || strings.HasPrefix(t, "invariant "):
			m := reClauseHead.FindStringSubmatch(t)
			if m == nil {
				return fail(l, "bad clause %q", t)
			}
			cl := &Clause{Kind: m[1], Src: m[4], File: path, Line: l.no}
			if cl.Kind == "assumes" {
				cl.Kind = "ensures"
				cl.Assumed = true
			}
			if m[2] != "" {
				cl.Props = strings.Split(strings.TrimPrefix(strings.TrimSpace(m[2]), "@"), ",")
			}
			if m[3] != "" {
				cl.Label = strings.TrimSuffix(strings.TrimSpace(m[3]), ":")
			}
			e, err := parseExpr(m[4])
			if err != nil {
				// the label regexp may have eaten "x ? a : b"-like text; retry with label as part of expr
				if m[3] != "" {
					e2, err2 := parseExpr(m[3] + m[4])
					if err2 == nil {
						e, err = e2, nil
						cl.Label = ""
						cl.Src = m[3] + m[4]
					}
				}
				if err != nil {
					return fail(l, "%v", err)
				}
			}
			cl.E = stripParens(e)
			switch {
			case curLemma != nil:
				if cl.Kind == "requires" {
					curLemma.Requires = append(curLemma.Requires, cl)
				} else {
					curLemma.Ensures = append(curLemma.Ensures, cl)
				}
			case cur == nil:
				return fail(l, "clause outside contract")
			case cl.Kind == "invariant":
				if curLoop == nil {
					return fail(l, "invariant outside loop")
				}
				curLoop.Invs = append(curLoop.Invs, cl)
			case cl.Kind == "requires":
				cur.Requires = append(cur.Requires, cl)
			default:
				cur.Ensures = append(cur.Ensures, cl)
			}
		case strings.HasPrefix(t, "modifies "):
			if cur == nil {
				return fail(l, "modifies outside contract")
			}
			locs := splitList(strings.TrimPrefix(t, "modifies "))
			if strings.Contains(t, " if ") {
				locs = []string{strings.TrimSpace(strings.TrimPrefix(t, "modifies "))}
			}
			if curLoop != nil {
				curLoop.Modifies = append(curLoop.Modifies, locs...)
			} else {
				cur.Modifies = append(cur.Modifies, locs...)
			}
		case strings.HasPrefix(t, "before "):
			if cur == nil {
				return fail(l, "before outside contract")
			}
			rest := strings.TrimPrefix(t, "before ")
			i := strings.Index(rest, ": ")
			if i < 0 {
				return fail(l, "before <callee>: [@props] [label:] expr")
			}
			callee := strings.TrimSpace(rest[:i])
			m := reClauseHead.FindStringSubmatch("requires " + strings.TrimSpace(rest[i+2:]))
			if m == nil {
				return fail(l, "bad before clause")
			}
			cl := &Clause{Kind: "before", Src: m[4], File: path, Line: l.no}
			if m[2] != "" {
				cl.Props = strings.Split(strings.TrimPrefix(strings.TrimSpace(m[2]), "@"), ",")
			}
			if m[3] != "" {
				cl.Label = strings.TrimSuffix(strings.TrimSpace(m[3]), ":")
			}
			e, err := parseExpr(m[4])
			if err != nil {
				return fail(l, "%v", err)
			}
			cl.E = stripParens(e)
			if cur.Before == nil {
				cur.Before = map[string][]*Clause{}
			}
			cur.Before[callee] = append(cur.Before[callee], cl)
		case strings.HasPrefix(t, "join "):
			if cur == nil {
				return fail(l, "join outside contract")
			}
			fs := strings.SplitN(strings.TrimPrefix(t, "join "), ":", 2)
			if len(fs) != 2 {
				return fail(l, "join <chan local>: <closure contract>")
			}
			cur.Joins = append(cur.Joins, JoinSpec{ChanLocal: strings.TrimSpace(fs[0]), Closure: strings.TrimSpace(fs[1])})
		case strings.HasPrefix(t, "backedge "):
			if curLoop == nil {
				return fail(l, "backedge outside loop")
			}
			m := reClauseHead.FindStringSubmatch("requires " + strings.TrimSpace(strings.TrimPrefix(t, "backedge ")))
			if m == nil {
				return fail(l, "bad backedge clause")
			}
			cl := &Clause{Kind: "backedge", Src: m[4], File: path, Line: l.no}
			if m[2] != "" {
				cl.Props = strings.Split(strings.TrimPrefix(strings.TrimSpace(m[2]), "@"), ",")
			}
			if m[3] != "" {
				cl.Label = strings.TrimSuffix(strings.TrimSpace(m[3]), ":")
			}
			e, err := parseExpr(m[4])
			if err != nil {
				return fail(l, "%v", err)
			}
			cl.E = stripParens(e)
			curLoop.BackEdge = append(curLoop.BackEdge, cl)
		case strings.HasPrefix(t, "recv "):
			if cur == nil {
				return fail(l, "recv outside contract")
			}
			rest := strings.TrimPrefix(t, "recv ")
			i := strings.Index(rest, ": ")
			if i < 0 {
				return fail(l, "recv N: [@props] [label:] expr")
			}
			n, err := strconv.Atoi(strings.TrimSpace(rest[:i]))
			if err != nil {
				return fail(l, "bad receive ordinal")
			}
			m := reClauseHead.FindStringSubmatch("requires " + strings.TrimSpace(rest[i+2:]))
			if m == nil {
				return fail(l, "bad recv clause")
			}
			cl := &Clause{Kind: "recv", Src: m[4], File: path, Line: l.no}
			if m[2] != "" {
				cl.Props = strings.Split(strings.TrimPrefix(strings.TrimSpace(m[2]), "@"), ",")
			}
			if m[3] != "" {
				cl.Label = strings.TrimSuffix(strings.TrimSpace(m[3]), ":")
			}
			e, err := parseExpr(m[4])
			if err != nil {
				return fail(l, "%v", err)
			}
			cl.E = stripParens(e)
			if cur.RecvObl == nil {
				cur.RecvObl = map[int][]*Clause{}
			}
			cur.RecvObl[n] = append(cur.RecvObl[n], cl)
		case strings.HasPrefix(t, "onrecv "):
			if cur == nil {
				return fail(l, "onrecv outside contract")
			}
			src := strings.TrimSpace(strings.TrimPrefix(t, "onrecv "))
			e, err := parseExpr(src)
			if err != nil {
				return fail(l, "%v", err)
			}
			cur.OnRecv = append(cur.OnRecv, &Clause{Kind: "onrecv", E: stripParens(e), Src: src, File: path, Line: l.no})
		case strings.HasPrefix(t, "ghostset "):
			if cur == nil {
				return fail(l, "ghostset outside contract")
			}
			rest := strings.TrimPrefix(t, "ghostset ")
			i := strings.Index(rest, " = ")
			if i < 0 {
				return fail(l, "bad ghostset")
			}
			e, err := parseExpr(rest[i+3:])
			if err != nil {
				return fail(l, "%v", err)
			}
			cur.Ghostsets = append(cur.Ghostsets, GhostSet{Loc: strings.TrimSpace(rest[:i]), E: stripParens(e), Src: rest})
		case strings.HasPrefix(t, "also "):
			if lastFunc == nil {
				return fail(l, "also outside rec func")
			}
			e, err := parseExpr(strings.TrimPrefix(t, "also "))
			if err != nil {
				return fail(l, "%v", err)
			}
			lastFunc.Also = append(lastFunc.Also, stripParens(e))
			lastFunc.AlsoSrc = append(lastFunc.AlsoSrc, strings.TrimPrefix(t, "also "))
		case strings.HasPrefix(t, "split "):
			if curLoop == nil {
				return fail(l, "split outside loop")
			}
			rest := strings.TrimPrefix(t, "split ")
			sp := &Split{}
			if strings.HasPrefix(rest, "on ") {
				i := strings.Index(rest, " by ")
				if i < 0 {
					return fail(l, "split on ... by name: alts")
				}
				sp.On = splitList(rest[3:i])
				rest = rest[i+4:]
			}
			i := strings.Index(rest, ":")
			if i < 0 {
				return fail(l, "bad split")
			}
			sp.Name = strings.TrimSpace(rest[:i])
			for _, alt := range strings.Split(rest[i+1:], " | ") {
				j := strings.Index(alt, "=")
				if j < 0 || strings.ContainsAny(strings.TrimSpace(alt[:j]), " ()!<>") {
					return fail(l, "split alternative needs label= expr: %q", alt)
				}
				e, err := parseExpr(alt[j+1:])
				if err != nil {
					return fail(l, "%v", err)
				}
				sp.Alts = append(sp.Alts, SplitAlt{Label: strings.TrimSpace(alt[:j]), E: stripParens(e), Src: strings.TrimSpace(alt[j+1:])})
			}
			curLoop.Splits = append(curLoop.Splits, sp)
		case strings.HasPrefix(t, "fresh "):
			if cur == nil {
				return fail(l, "fresh outside contract")
			}
			cur.Fresh = append(cur.Fresh, strings.TrimSpace(strings.TrimPrefix(t, "fresh ")))
		case strings.HasPrefix(t, "use "):
			if cur == nil {
				return fail(l, "use outside contract")
			}
			cur.Uses = append(cur.Uses, strings.TrimSpace(strings.TrimPrefix(t, "use ")))
		case strings.HasPrefix(t, "loop "):
			if cur == nil {
				return fail(l, "loop outside contract")
			}
			n, err := strconv.Atoi(strings.TrimSuffix(strings.TrimSpace(strings.TrimPrefix(t, "loop ")), ":"))
			if err != nil {
				return fail(l, "bad loop ordinal")
			}
			curLoop = &LoopSpec{N: n}
			cur.Loops[n] = curLoop
		case strings.HasPrefix(t, "trusted"):
			if cur == nil {
				return fail(l, "trusted outside contract")
			}
			cur.Trusted = strings.TrimSpace(strings.TrimPrefix(t, "trusted"))
		case t == "maypanic":
			cur.MayPanic = true
		case t == "pure":
			cur.Pure = true
		case t == "inline":
			cur.Inline = true
		case strings.HasPrefix(t, "onlyuse "):
			// onlyuse [@Cxx,Cyy] param: callee, callee
			if cur == nil {
				return fail(l, "onlyuse outside contract")
			}
			rest := strings.TrimSpace(strings.TrimPrefix(t, "onlyuse "))
			var props []string
			if strings.HasPrefix(rest, "@") {
				i := strings.Index(rest, " ")
				if i < 0 {
					return fail(l, "onlyuse [@props] param: callees")
				}
				props = strings.Split(rest[1:i], ",")
				rest = strings.TrimSpace(rest[i+1:])
			}
			i := strings.Index(rest, ":")
			if i < 0 {
				return fail(l, "onlyuse [@props] param: callees")
			}
			if cur.OnlyUse == nil {
				cur.OnlyUse = map[string][]string{}
				cur.OnlyUseProps = map[string][]string{}
			}
			pn := strings.TrimSpace(rest[:i])
			cur.OnlyUse[pn] = splitList(rest[i+1:])
			cur.OnlyUseProps[pn] = props
		case strings.HasPrefix(t, "nooverflow"):
			cur.NoOverflow = strings.TrimSpace(strings.TrimPrefix(t, "nooverflow"))
			if cur.NoOverflow == "" {
				cur.NoOverflow = "unspecified"
			}
		case strings.HasPrefix(t, "thread "):
			cur.Thread = strings.TrimSpace(strings.TrimPrefix(t, "thread "))
		default:
			return fail(l, "unknown directive %q", t)
		}
	}
	return nil
}
