package main

// Specification expression language: tokenizer, Pratt parser, AST.
// Grammar (see DESIGN.md Appendix C):
//   E ::= int | 'c' | "str" | true | false | nil | ident | old(E) | E.f | E[E] | E[E:E]
//       | f(E,...) | !E | -E | E op E | E ==> E | E <==> E | E ? E : E
//       | forall x :: E | exists x :: E | (E)
// Chained comparisons a <= b < c are expanded to a <= b && b < c.

import (
	"fmt"
	"strconv"
	"strings"
	"unicode"
)

type Expr interface{}

type EInt struct{ V int64 }
type EBool struct{ V bool }
type EStr struct{ V string }
type ENil struct{}
type EIdent struct{ Name string }
type EUn struct {
	Op string
	X  Expr
}
type EBin struct {
	Op   string
	L, R Expr
}
type ECall struct {
	Fn   string
	Args []Expr
}
type ESel struct {
	X     Expr
	Field string
}
type EIndex struct{ X, I Expr }
type ESlice struct{ X, Lo, Hi Expr }
type ECond struct{ C, A, B Expr }
type EQuant struct {
	Forall  bool
	Var     string
	VarTy   string // optional type name, default int
	Body    Expr
	Witness Expr // exists only: instantiation hint, evaluated with the locals visible at the program point
}
type EOld struct{ X Expr }

type stoken struct {
	kind string // "int","str","chr","id","op","eof"
	text string
	ival int64
}

type lexer struct {
	src  string
	pos  int
	toks []stoken
}

var ops3 = []string{"<==>", "==>", "..."}
var ops2 = []string{"==", "!=", "<=", ">=", "&&", "||", "::", ".."}

func lex(src string) ([]stoken, error) {
	var toks []stoken
	i := 0
	for i < len(src) {
		c := src[i]
		if c == ' ' || c == '\t' || c == '\n' || c == '\r' {
			i++
			continue
		}
		if c == '/' && i+1 < len(src) && src[i+1] == '/' {
			break // comment to end
		}
		if unicode.IsDigit(rune(c)) {
			j := i
			for j < len(src) && (unicode.IsDigit(rune(src[j])) || src[j] == 'x' || src[j] == 'X' || src[j] == '_' || (src[j] >= 'a' && src[j] <= 'f') || (src[j] >= 'A' && src[j] <= 'F')) {
				j++
			}
			v, err := strconv.ParseInt(strings.ReplaceAll(src[i:j], "_", ""), 0, 64)
			if err != nil {
				return nil, fmt.Errorf("bad int %q", src[i:j])
			}
			toks = append(toks, stoken{kind: "int", text: src[i:j], ival: v})
			i = j
			continue
		}
		if unicode.IsLetter(rune(c)) || c == '_' || c == '$' {
			j := i
			for j < len(src) && (unicode.IsLetter(rune(src[j])) || unicode.IsDigit(rune(src[j])) || src[j] == '_' || src[j] == '$') {
				j++
			}
			toks = append(toks, stoken{kind: "id", text: src[i:j]})
			i = j
			continue
		}
		if c == '"' {
			j := i + 1
			for j < len(src) && src[j] != '"' {
				if src[j] == '\\' {
					j++
				}
				j++
			}
			if j >= len(src) {
				return nil, fmt.Errorf("unterminated string")
			}
			s, err := strconv.Unquote(src[i : j+1])
			if err != nil {
				return nil, fmt.Errorf("bad string %s", src[i:j+1])
			}
			toks = append(toks, stoken{kind: "str", text: s})
			i = j + 1
			continue
		}
		if c == '\'' {
			j := i + 1
			for j < len(src) && src[j] != '\'' {
				if src[j] == '\\' {
					j++
				}
				j++
			}
			if j >= len(src) {
				return nil, fmt.Errorf("unterminated char")
			}
			r, _, _, err := strconv.UnquoteChar(src[i+1:j], '\'')
			if err != nil {
				return nil, fmt.Errorf("bad char %s", src[i:j+1])
			}
			toks = append(toks, stoken{kind: "int", text: src[i : j+1], ival: int64(r)})
			i = j + 1
			continue
		}
		matched := false
		for _, o := range ops3 {
			if strings.HasPrefix(src[i:], o) {
				toks = append(toks, stoken{kind: "op", text: o})
				i += len(o)
				matched = true
				break
			}
		}
		if matched {
			continue
		}
		for _, o := range ops2 {
			if strings.HasPrefix(src[i:], o) {
				toks = append(toks, stoken{kind: "op", text: o})
				i += len(o)
				matched = true
				break
			}
		}
		if matched {
			continue
		}
		if strings.ContainsRune("+-*/%<>!()[],.?:=&|", rune(c)) {
			toks = append(toks, stoken{kind: "op", text: string(c)})
			i++
			continue
		}
		return nil, fmt.Errorf("unexpected character %q at %d in %q", c, i, src)
	}
	toks = append(toks, stoken{kind: "eof"})
	return toks, nil
}

type sparser struct {
	toks []stoken
	p    int
	src  string
}

func parseExpr(src string) (e Expr, err error) {
	toks, err := lex(src)
	if err != nil {
		return nil, err
	}
	ps := &sparser{toks: toks, src: src}
	defer func() {
		if r := recover(); r != nil {
			if pe, ok := r.(parseError); ok {
				err = fmt.Errorf("%s in %q", string(pe), src)
				return
			}
			panic(r)
		}
	}()
	e = ps.expr(0)
	if ps.peek().kind != "eof" {
		ps.fail("trailing tokens at %q", ps.peek().text)
	}
	return e, nil
}

type parseError string

func (ps *sparser) fail(f string, a ...interface{}) { panic(parseError(fmt.Sprintf(f, a...))) }
func (ps *sparser) peek() stoken                    { return ps.toks[ps.p] }
func (ps *sparser) next() stoken                    { t := ps.toks[ps.p]; ps.p++; return t }
func (ps *sparser) isOp(s string) bool              { t := ps.peek(); return t.kind == "op" && t.text == s }
func (ps *sparser) expect(s string) {
	if !ps.isOp(s) {
		ps.fail("expected %q, got %q", s, ps.peek().text)
	}
	ps.next()
}

// binding powers
var binPrec = map[string]int{
	"<==>": 1, "==>": 2, "?": 3, "||": 4, "&&": 5,
	"==": 6, "!=": 6, "<": 6, "<=": 6, ">": 6, ">=": 6,
	"+": 7, "-": 7, "*": 8, "/": 8, "%": 8,
}

func isCmp(op string) bool {
	switch op {
	case "==", "!=", "<", "<=", ">", ">=":
		return true
	}
	return false
}

func (ps *sparser) expr(minPrec int) Expr {
	lhs := ps.unary()
	var chainLast Expr // right operand of the comparison just built (for a <= b < c)
	for {
		t := ps.peek()
		if t.kind != "op" {
			break
		}
		prec, ok := binPrec[t.text]
		if !ok || prec < minPrec {
			break
		}
		op := t.text
		ps.next()
		switch op {
		case "==>":
			rhs := ps.expr(prec) // right assoc
			lhs = EBin{"==>", lhs, rhs}
			chainLast = nil
		case "<==>":
			rhs := ps.expr(prec + 1)
			lhs = EBin{"<==>", lhs, rhs}
			chainLast = nil
		case "?":
			a := ps.expr(prec + 1)
			ps.expect(":")
			b := ps.expr(prec)
			lhs = ECond{lhs, a, b}
			chainLast = nil
		default:
			rhs := ps.expr(prec + 1)
			if isCmp(op) && chainLast != nil {
				lhs = EBin{"&&", lhs, EBin{op, chainLast, rhs}}
				chainLast = rhs
				continue
			}
			lhs = EBin{op, lhs, rhs}
			if isCmp(op) {
				chainLast = rhs
			} else {
				chainLast = nil
			}
		}
	}
	return lhs
}

// Parenthesised expressions are wrapped in EParen by primary() (so that
// "(a < b) == c" is not read as a chain) and unwrapped by stripParens.
type EParen struct{ X Expr }

func (ps *sparser) unary() Expr {
	t := ps.peek()
	if t.kind == "op" {
		switch t.text {
		case "!":
			ps.next()
			return EUn{"!", ps.unary()}
		case "-":
			ps.next()
			return EUn{"-", ps.unary()}
		}
	}
	if t.kind == "id" && (t.text == "forall" || t.text == "exists") {
		ps.next()
		v := ps.next()
		if v.kind != "id" {
			ps.fail("expected bound variable")
		}
		vt := ""
		if ps.isOp(":") {
			ps.next()
			for !ps.isOp("::") && ps.peek().kind != "eof" {
				vt += ps.next().text
			}
		}
		ps.expect("::")
		body := ps.expr(0)
		q := EQuant{Forall: t.text == "forall", Var: v.text, VarTy: vt, Body: body}
		if w := ps.peek(); w.kind == "id" && w.text == "witness" && !q.Forall {
			ps.next()
			q.Witness = ps.expr(0)
		}
		return q
	}
	return ps.postfix(ps.primary())
}

func (ps *sparser) primary() Expr {
	t := ps.next()
	switch t.kind {
	case "int":
		return EInt{t.ival}
	case "str":
		return EStr{t.text}
	case "id":
		switch t.text {
		case "true":
			return EBool{true}
		case "false":
			return EBool{false}
		case "nil":
			return ENil{}
		case "old":
			ps.expect("(")
			e := ps.expr(0)
			ps.expect(")")
			return EOld{e}
		}
		if ps.isOp("(") {
			ps.next()
			var args []Expr
			for !ps.isOp(")") {
				args = append(args, ps.expr(0))
				if ps.isOp(",") {
					ps.next()
				} else {
					break
				}
			}
			ps.expect(")")
			return ECall{t.text, args}
		}
		return EIdent{t.text}
	case "op":
		if t.text == "(" {
			e := ps.expr(0)
			ps.expect(")")
			return EParen{e}
		}
	}
	ps.fail("unexpected token %q", t.text)
	return nil
}

func (ps *sparser) postfix(e Expr) Expr {
	for {
		if ps.isOp(".") {
			ps.next()
			f := ps.next()
			if f.kind != "id" {
				ps.fail("expected field name after '.'")
			}
			// qualified call pkg.f(...) is not supported; fields only
			e = ESel{e, f.text}
			continue
		}
		if ps.isOp("[") {
			ps.next()
			if ps.isOp(":") {
				ps.next()
				hi := ps.expr(0)
				ps.expect("]")
				e = ESlice{e, nil, hi}
				continue
			}
			i := ps.expr(0)
			if ps.isOp(":") {
				ps.next()
				var hi Expr
				if !ps.isOp("]") {
					hi = ps.expr(0)
				}
				ps.expect("]")
				e = ESlice{e, i, hi}
				continue
			}
			ps.expect("]")
			e = EIndex{e, i}
			continue
		}
		return e
	}
}

// stripParens removes EParen wrappers (kept only to stop comparison chaining).
func stripParens(e Expr) Expr {
	switch x := e.(type) {
	case EParen:
		return stripParens(x.X)
	case EUn:
		return EUn{x.Op, stripParens(x.X)}
	case EBin:
		return EBin{x.Op, stripParens(x.L), stripParens(x.R)}
	case ECall:
		args := make([]Expr, len(x.Args))
		for i, a := range x.Args {
			args[i] = stripParens(a)
		}
		return ECall{x.Fn, args}
	case ESel:
		return ESel{stripParens(x.X), x.Field}
	case EIndex:
		return EIndex{stripParens(x.X), stripParens(x.I)}
	case ESlice:
		var lo, hi Expr
		if x.Lo != nil {
			lo = stripParens(x.Lo)
		}
		if x.Hi != nil {
			hi = stripParens(x.Hi)
		}
		return ESlice{stripParens(x.X), lo, hi}
	case ECond:
		return ECond{stripParens(x.C), stripParens(x.A), stripParens(x.B)}
	case EQuant:
		q := EQuant{Forall: x.Forall, Var: x.Var, VarTy: x.VarTy, Body: stripParens(x.Body)}
		if x.Witness != nil {
			q.Witness = stripParens(x.Witness)
		}
		return q
	case EOld:
		return EOld{stripParens(x.X)}
	}
	return e
}

func mustParse(src string) Expr {
	e, err := parseExpr(src)
	if err != nil {
		panic(err)
	}
	return stripParens(e)
}

func exprString(e Expr) string {
	switch x := e.(type) {
	case EInt:
		return fmt.Sprint(x.V)
	case EBool:
		return fmt.Sprint(x.V)
	case EStr:
		return strconv.Quote(x.V)
	case ENil:
		return "nil"
	case EIdent:
		return x.Name
	case EUn:
		return x.Op + exprString(x.X)
	case EBin:
		return "(" + exprString(x.L) + " " + x.Op + " " + exprString(x.R) + ")"
	case ECall:
		var a []string
		for _, y := range x.Args {
			a = append(a, exprString(y))
		}
		return x.Fn + "(" + strings.Join(a, ", ") + ")"
	case ESel:
		return exprString(x.X) + "." + x.Field
	case EIndex:
		return exprString(x.X) + "[" + exprString(x.I) + "]"
	case ESlice:
		lo, hi := "", ""
		if x.Lo != nil {
			lo = exprString(x.Lo)
		}
		if x.Hi != nil {
			hi = exprString(x.Hi)
		}
		return exprString(x.X) + "[" + lo + ":" + hi + "]"
	case ECond:
		return "(" + exprString(x.C) + " ? " + exprString(x.A) + " : " + exprString(x.B) + ")"
	case EQuant:
		q := "exists"
		if x.Forall {
			q = "forall"
		}
		return "(" + q + " " + x.Var + " :: " + exprString(x.Body) + ")"
	case EOld:
		return "old(" + exprString(x.X) + ")"
	case EParen:
		return "(" + exprString(x.X) + ")"
	}
	return fmt.Sprintf("?%T", e)
}
