package main

import (
	"encoding/json"
	"fmt"
	"os"
	"path/filepath"
	"sort"
	"strconv"
	"strings"
)

type KnownFinding struct {
	Property   string `json:"property"`
	Obligation string `json:"obligation"` // exact obligation name (no line numbers)
	Status     string `json:"status"`     // "open" or "fixed: <commit>"
	What       string `json:"what"`
	Witness    string `json:"witness,omitempty"`
}

type KnownFindings struct {
	Findings []KnownFinding `json:"findings"`
}

func loadKnown(verif string) *KnownFindings {
	kf := &KnownFindings{}
	data, err := os.ReadFile(filepath.Join(verif, "known_findings.json"))
	if err != nil {
		return kf
	}
	json.Unmarshal(data, kf)
	return kf
}

// open: an open finding names a clause of a function (the "~k" return-site ordinal is not part of the key).
func (kf *KnownFindings) open(prop, obl string) *KnownFinding {
	base := obl
	if i := strings.LastIndex(base, "~"); i >= 0 {
		base = base[:i]
	}
	for i := range kf.Findings {
		f := &kf.Findings[i]
		if f.Status == "open" && (f.Obligation == obl || f.Obligation == base) && (f.Property == prop || f.Property == "") {
			return f
		}
	}
	return nil
}

func oblSafeName(s string) string {
	r := strings.NewReplacer("/", "_", "(", "", ")", "", "*", "", " ", "_", ":", "-", "#", "n", ">", "-", "$", "_", "~", "-", "@", "-", "<", "", ",", "_")
	return r.Replace(s)
}

// report prints results, writes replay files and the evidence file; returns the exit status.
func report(run *checkRun, verif string, verbose, writeEv bool) int {
	kf := loadKnown(verif)
	sortObls(run.obls)
	discharged := 0
	var failed, known []*Obligation
	solverTime := map[string]float64{}
	solverCount := map[string]int{}
	covers := 0
	nBounded := 0
	for _, o := range run.obls {
		solverTime[o.Solver] += o.Seconds
		solverCount[o.Solver]++
		if o.Kind == "bounded" {
			// never counted as proved
			nBounded++
			if o.ok() {
				if verbose {
					fmt.Printf("  bounded-ok %-77s %d cases\n", o.Name, o.Evals)
				}
				continue
			}
			if k := kf.open(run.prop, o.Name); k != nil {
				known = append(known, o)
				continue
			}
			failed = append(failed, o)
			continue
		}
		if o.ok() {
			discharged++
			if o.Cover {
				covers++
			}
			if verbose {
				fmt.Printf("  ok      %-80s %s %.2fs\n", o.Name, o.Solver, o.Seconds)
			}
			continue
		}
		if k := kf.open(run.prop, o.Name); k != nil {
			known = append(known, o)
			continue
		}
		failed = append(failed, o)
	}
	exit := 0
	replayDir := filepath.Join(verif, "replays")
	os.MkdirAll(replayDir, 0o755)
	for _, e := range run.errs {
		fmt.Printf("GENERATOR-ERROR: %s\n", e)
	}
	if len(run.errs) > 0 {
		// fail closed: a contract that cannot be translated is an undischarged obligation
		p := filepath.Join(replayDir, run.prop+"-generator-errors.txt")
		os.WriteFile(p, []byte("obligation: contracts and code translate into verification conditions\n\n"+strings.Join(run.errs, "\n")+"\n"), 0o644)
		fmt.Printf("VIOLATION property=%s replay=%s no-failing-input-found\n", run.prop, p)
		exit = 1
	}
	if len(run.obls) == 0 {
		p := filepath.Join(replayDir, run.prop+"-no-obligations.txt")
		os.WriteFile(p, []byte("obligation: at least one obligation is generated for "+run.prop+"\n\nno contract in /repo/contracts_verif.go is tagged with this property\n"), 0o644)
		fmt.Printf("VIOLATION property=%s replay=%s no-failing-input-found\n", run.prop, p)
		exit = 1
	}
	for _, o := range known {
		k := kf.open(run.prop, o.Name)
		fmt.Printf("KNOWN-FINDING: property=%s %s %s\n", run.prop, o.Name, k.What)
	}
	violations := 0
	for _, o := range failed {
		violations++
		path, reproduced := writeReplay(run, o, replayDir)
		suffix := ""
		if !reproduced {
			suffix = " no-failing-input-found"
		}
		fmt.Printf("VIOLATION property=%s replay=%s%s\n", run.prop, path, suffix)
		fmt.Printf("  failed obligation: %s (%s, %s)  %s\n", o.Name, o.Status, o.Solver, o.Src)
		if o.Pos.IsValid() {
			fmt.Printf("  at %s\n", o.Pos)
		}
		exit = 1
	}
	// stale known findings (informational)
	for _, k := range kf.Findings {
		if k.Status != "open" || k.Property != run.prop {
			continue
		}
		found := false
		anyFails := false
		for _, o := range run.obls {
			if o.Name == k.Obligation || strings.HasPrefix(o.Name, k.Obligation+"~") {
				found = true
				if !o.ok() {
					anyFails = true
				}
			}
		}
		if found && !anyFails {
			fmt.Printf("NOTE: known finding %s no longer reproduces (obligation discharged)\n", k.Obligation)
		}
		if !found && strings.HasPrefix(k.Obligation, "bounded:") {
			fmt.Printf("NOTE: known finding %s lies outside this tier's bound (it is reached in the thorough tier)\n", k.Obligation)
		} else if !found {
			fmt.Printf("NOTE: known finding %s names an obligation that is no longer generated\n", k.Obligation)
		}
	}
	extra := ""
	if nBounded > 0 {
		extra = fmt.Sprintf(" (+%d bounded stand-ins, not counted as proved)", nBounded)
	}
	fmt.Printf("%s %s: %d obligations, %d discharged, %d known findings, %d violations, %.1fs%s\n",
		run.prop, run.tier, len(run.obls)-nBounded, discharged, len(known), violations, run.wall, extra)
	if writeEv {
		writeEvidence(run, verif, discharged, known, failed, solverTime, solverCount)
	}
	return exit
}

func writeReplay(run *checkRun, o *Obligation, dir string) (string, bool) {
	base := filepath.Join(dir, run.prop+"-"+oblSafeName(o.Name))
	var sb strings.Builder
	fmt.Fprintf(&sb, "property: %s\nobligation: %s\nkind: %s\nclause: %s\n", run.prop, o.Name, o.Kind, o.Src)
	if o.Pos.IsValid() {
		fmt.Fprintf(&sb, "position: %s\n", o.Pos)
	}
	fmt.Fprintf(&sb, "solver: %s status: %s time: %.2fs\n", o.Solver, o.Status, o.Seconds)
	reproduced := false
	if o.Kind == "bounded" {
		reproduced = o.Reproduced
		fmt.Fprintf(&sb, "\nBOUNDED stand-in (exhaustive enumeration on the real code, %d cases)\n", o.Evals)
	} else if (o.Status == "sat" && len(o.Model) > 0) || (o.Func == "(*lineLimitReader).Read" && !o.Cover) {
		fmt.Fprintf(&sb, "\ncounterexample (function inputs in the verifier's model):\n")
		var ks []string
		for k := range o.Model {
			ks = append(ks, k)
		}
		sort.Strings(ks)
		for _, k := range ks {
			fmt.Fprintf(&sb, "  %s = %s\n", k, o.Model[k])
		}
		rep, ok := replayOnRealCode(run, o, base)
		sb.WriteString("\n" + rep)
		reproduced = ok
	}
	fmt.Fprintf(&sb, "\nsolver output:\n%s\n", truncate(o.Output, 6000))
	os.WriteFile(base+".txt", []byte(sb.String()), 0o644)
	os.WriteFile(base+".smt2", []byte(o.query(true)), 0o644)
	return base + ".txt", reproduced
}

type evidence struct {
	PropertyID  string                 `json:"property_id"`
	Tier        string                 `json:"tier"`
	Seed        int                    `json:"seed"`
	Level       string                 `json:"level"`
	Coverage    map[string]interface{} `json:"coverage"`
	Assumptions []string               `json:"assumptions"`
	WallS       float64                `json:"wall_s"`
	Violations  int                    `json:"violations"`
}

func writeEvidence(run *checkRun, verif string, discharged int, known, failed []*Obligation, solverTime map[string]float64, solverCount map[string]int) {
	seed, _ := strconv.Atoi(os.Getenv("VERIF_SEED"))
	ev := evidence{PropertyID: run.prop, Tier: run.tier, Seed: seed, Level: "proof", WallS: run.wall, Violations: len(failed)}
	funcs := map[string]bool{}
	kinds := map[string]int{}
	var samples []interface{}
	perObl := []map[string]interface{}{}
	var boundedList []map[string]interface{}
	for _, o := range run.obls {
		if o.Kind == "bounded" {
			boundedList = append(boundedList, map[string]interface{}{"name": o.Name, "bound": o.Src, "evaluations": o.Evals, "status": map[bool]string{true: "no failing case within the bound", false: "FAILED"}[o.ok()], "seconds": round3(o.Seconds), "label": "bounded - never counted as proved"})
			continue
		}
		funcs[o.Func] = true
		kinds[o.Kind]++
		perObl = append(perObl, map[string]interface{}{"name": o.Name, "kind": o.Kind, "status": o.Status, "solver": o.Solver, "seconds": round3(o.Seconds)})
	}
	for i, o := range run.obls {
		if i%maxInt(1, len(run.obls)/6) == 0 && len(samples) < 8 {
			samples = append(samples, map[string]interface{}{"obligation": o.Name, "kind": o.Kind, "clause": o.Src, "guard": truncate(o.Guard, 200), "goal": truncate(o.Goal, 400), "status": o.Status, "solver": o.Solver})
		}
	}
	stubs := map[string]bool{}
	abstracted := map[string]bool{}
	inlined := map[string]bool{}
	var notes []string
	nooverflow := []string{}
	for _, g := range run.gens {
		for k := range g.usedStubs {
			stubs[k] = true
		}
		for k := range g.abstracted {
			abstracted[k] = true
		}
		for k := range g.inlined {
			inlined[k] = true
		}
		notes = append(notes, g.notes...)
		if g.con != nil && g.con.NoOverflow != "" {
			nooverflow = append(nooverflow, g.con.Name+": "+g.con.NoOverflow)
		}
	}
	trusted := []string{"go/ssa construction of /repo (x/tools v0.29.0) and the govc VC generator", "SMT solvers z3 4.8.12 / z3 5.1.0 / cvc5 1.0.x"}
	for _, k := range sortedSet(stubs) {
		c := run.w.db.Contracts[k]
		t := "trusted stub: " + k
		if c != nil && c.Trusted != "" {
			t += " (" + c.Trusted + ")"
		}
		trusted = append(trusted, t)
	}
	for _, a := range run.w.db.Axioms {
		trusted = append(trusted, "axiom: "+a.Name)
	}
	assumedPosts := map[string]bool{}
	for _, g := range run.gens {
		for k := range g.assumedPosts {
			assumedPosts[k] = true
		}
	}
	for _, k := range sortedSet(assumedPosts) {
		trusted = append(trusted, "assumed postcondition of a function under contract (handed to callers, not proved of the body): "+k)
	}
	for _, k := range sortedSet(abstracted) {
		trusted = append(trusted, "abstracted external callee (result unconstrained, package state untouched): "+k)
	}
	var knownList []map[string]string
	kf := loadKnown(verif)
	for _, o := range known {
		k := kf.open(run.prop, o.Name)
		knownList = append(knownList, map[string]string{"obligation": o.Name, "what": k.What, "status": o.Status})
	}
	nb := len(boundedList)
	knownProof := 0
	for _, o := range known {
		if o.Kind != "bounded" {
			knownProof++
		}
	}
	claimed := len(run.obls) - nb - knownProof
	ev.Coverage = map[string]interface{}{
		"obligations":            claimed,
		"discharged":             discharged,
		"checker_cmd":            fmt.Sprintf("/verif/bin/govc check %s -tier %s", run.prop, run.tier),
		"trusted_base":           trusted,
		"functions_under_contract": sortedSet(funcs),
		"inlined_callees":        sortedSet(inlined),
		"obligation_kinds":       kinds,
		"backends":               map[string]interface{}{"count": solverCount, "seconds": roundMap(solverTime)},
		"known_findings":         knownList,
		"failed":                 oblNames(failed),
		"per_obligation":         perObl,
		"samples":                samples,
		"generator_notes":        notes,
		"arithmetic":             "mathematical integers with the Go type's range as typing invariant; every + - * and narrowing conversion in a function under contract carries an overflow obligation unless listed under overflow_unchecked",
		"overflow_unchecked":     nooverflow,
	}
	if nb > 0 {
		ev.Coverage["bounded_stand_ins"] = boundedList
	}
	// clauses of the property that no obligation of this check decides (DESIGN.md 8.4; static text)
	if data, err := os.ReadFile(filepath.Join(verif, "not_decided.json")); err == nil {
		nd := map[string]string{}
		if json.Unmarshal(data, &nd) == nil && nd[run.prop] != "" {
			ev.Coverage["not_decided"] = nd[run.prop]
		}
	}
	if run.vacuity != nil {
		ev.Coverage["seeded_change_corpus"] = run.vacuity
	}
	ev.Assumptions = append(ev.Assumptions, trusted...)
	ev.Assumptions = append(ev.Assumptions, propertyAssumptions(run)...)
	os.MkdirAll(filepath.Join(verif, "evidence"), 0o755)
	data, _ := json.MarshalIndent(ev, "", " ")
	os.WriteFile(filepath.Join(verif, "evidence", run.prop+".json"), data, 0o644)
}

func propertyAssumptions(run *checkRun) []string {
	return []string{
		"goroutine interleavings, termination and timing are outside the sequential verification conditions; panics raised by backend callbacks are modelled only at the recover handlers under contract, each verified for the panicking case from any state satisfying its stated precondition (that the precondition holds wherever a panic can start is assumed)",
		"postconditions about the calls a function makes itself (resultof/called) are obligations of that function only, not handed to its callers",
		"package-level sentinel variables are never reassigned (mechanically scanned on load)",
	}
}

func oblNames(os []*Obligation) []string {
	out := []string{}
	for _, o := range os {
		out = append(out, o.Name)
	}
	return out
}

func round3(f float64) float64 { return float64(int(f*1000+0.5)) / 1000 }

func roundMap(m map[string]float64) map[string]float64 {
	o := map[string]float64{}
	for k, v := range m {
		o[k] = round3(v)
	}
	return o
}

func maxInt(a, b int) int {
	if a > b {
		return a
	}
	return b
}
