package main

import (
	"fmt"
	"go/token"
	"go/types"
	"sort"
	"strings"

	"golang.org/x/tools/go/ssa"
)

// snapshot/restore of generator bookkeeping for speculative translation (typing-only passes)
type genSnap struct {
	lines    int
	declared map[string]bool
	heapArrs map[string]string
	strLits  map[string]string
	tags     map[string]int
	recSeen  map[string]bool
	assumed  map[string]bool
	errs     int
	sent     int
}

func copyB(m map[string]bool) map[string]bool {
	n := make(map[string]bool, len(m))
	for k, v := range m {
		n[k] = v
	}
	return n
}
func copyS(m map[string]string) map[string]string {
	n := make(map[string]string, len(m))
	for k, v := range m {
		n[k] = v
	}
	return n
}

func (g *Gen) snap() genSnap {
	t := map[string]int{}
	for k, v := range g.tags {
		t[k] = v
	}
	return genSnap{len(g.lines), copyB(g.declared), copyS(g.heapArrs), copyS(g.strLits), t, copyB(g.recSeen), copyB(g.assumed), len(g.errs), len(g.sentinelList)}
}

func (g *Gen) restore(s genSnap) {
	g.lines = g.lines[:s.lines]
	g.declared, g.heapArrs, g.strLits, g.tags, g.recSeen, g.assumed = s.declared, s.heapArrs, s.strLits, s.tags, s.recSeen, s.assumed
	g.errs = g.errs[:s.errs]
	g.sentinelList = g.sentinelList[:s.sent]
}

// verifyContract generates all obligations for one contracted function.
func (w *World) verifyContract(con *Contract) *Gen {
	// pass 1 finds the heap arrays that the function writes only in memory it allocated itself
	g1 := w.verifyContractPass(con, nil)
	clean := map[string]bool{}
	for name := range g1.heapArrs {
		if !g1.dirty[name] {
			clean[name] = true
		}
	}
	return w.verifyContractPass(con, clean)
}

func (w *World) verifyContractPass(con *Contract, clean map[string]bool) *Gen {
	fn := w.funcs[con.Name]
	g := w.newGen(fn, con)
	g.clean = clean
	// global axioms (facts about package-level variables of libraries; listed in the trusted base)
	for _, ax := range w.db.Axioms {
		env := &Env{g: g, vars: map[string]Val{}, heap: &Heap{cur: map[string]string{}}}
		t, err := g.trBool(ax.E, env)
		if err != nil {
			g.errorf("axiom %s: %v", ax.Name, err)
			continue
		}
		g.assume(t)
	}
	g.fnName = con.Name
	g.checkOverflow = con.NoOverflow == ""
	if fn == nil || len(fn.Blocks) == 0 {
		o := g.addObl("missing", "exists", con.Props, "true", "false", nil, "contracted function not found in /repo", token.NoPos)
		o.Status = ""
		return g
	}
	st := &State{reach: "true", heap: &Heap{cur: map[string]string{}}}
	f := &frame{g: g, fn: fn, inst: 0, regs: map[ssa.Value]Val{}, top: true, con: con, props: con.Props, callCtr: map[string]int{}}
	al := g.arr(st.heap, "alloc", "Bool")
	g.assume(fmt.Sprintf("(not (select %s 0))", al))
	if !callsRecover(fn) {
		// sequential VCs describe non-panicking executions; only a function that itself calls recover()
		// (a deferred panic handler under its own contract) is also verified for the panicking case
		g.assume("(not recovered!)")
	}
	declParam := func(name string, t types.Type) Val {
		v := g.havocVal("p_"+sanitize(name), t, "true")
		switch sortOf(t) {
		case "Int":
			switch t.Underlying().(type) {
			case *types.Pointer, *types.Map, *types.Chan:
				g.assume(fmt.Sprintf("(or (= %s 0) (select %s %s))", v.T, al, v.T))
			}
		case "Slice":
			g.assume(fmt.Sprintf("(or (= (s-arr %s) 0) (select %s (s-arr %s)))", v.T, al, v.T))
		case "Iface":
			g.assume(fmt.Sprintf("(or (= (i-val %s) 0) (select %s (i-val %s)))", v.T, al, v.T))
			g.assume(fmt.Sprintf("(=> (= (i-tag %s) 0) (= (i-val %s) 0))", v.T, v.T))
		}
		if v.T != "" {
			g.inputs = append(g.inputs, InputTerm{Name: name, Term: v.T})
		}
		return v
	}
	for _, p := range fn.Params {
		f.params = append(f.params, declParam(p.Name(), p.Type()))
	}
	for _, fv := range fn.FreeVars {
		v := declParam("fv_"+fv.Name(), fv.Type())
		v.Loc = nil
		if isCellType(fv.Type()) {
			g.assume(fmt.Sprintf("(not (= %s 0))", v.T)) // the cell of a captured variable always exists
		}
		f.freeVars = append(f.freeVars, v)
	}
	if len(con.Params) > 0 && len(con.Params) != len(fn.Params) {
		g.errorf("contract %s names %d parameters, function has %d", con.Name, len(con.Params), len(fn.Params))
	}
	if len(con.Results) > 0 && len(con.Results) != fn.Signature.Results().Len() {
		g.errorf("contract %s names %d results, function has %d", con.Name, len(con.Results), fn.Signature.Results().Len())
	}
	env := &Env{g: g, vars: map[string]Val{}, heap: st.heap, old: st.heap}
	f.bindParams(env)
	var reqs []string
	for _, cl := range con.Requires {
		t, err := g.trBool(cl.E, env)
		if err != nil {
			g.errorf("contract %s: requires %s: %v", con.Name, cl.Src, err)
			continue
		}
		g.assume(t)
		reqs = append(reqs, t)
	}
	// vacuity: the precondition (with typing assumptions) must be satisfiable
	cov := g.addObl("cover", "cover:requires", con.Props, "true", "true", nil, "precondition satisfiable", fn.Pos())
	cov.Cover = true
	// onlyuse p: callees - a structural obligation over go/ssa (no SMT): the parameter is handed to the listed
	// callees (or on to package helpers, followed) and is used for nothing else
	for _, pn := range sortedKeysSS(con.OnlyUse) {
		props := con.OnlyUseProps[pn]
		if len(props) == 0 {
			props = con.Props
		}
		why := g.onlyUse(fn, pn, con.OnlyUse[pn], 0)
		goal := "true"
		if why != "" {
			goal = "false"
		}
		o := g.addObl("structural", "onlyuse:"+pn, props, "true", goal, nil, "parameter "+pn+" is only handed to "+strings.Join(con.OnlyUse[pn], ", ")+" "+why, fn.Pos())
		_ = o
	}
	f.exec(st)
	g.registerReplayInputs()
	if len(f.rets) == 0 && !con.MayPanic {
		g.note("function %s has no reachable return", con.Name)
	}
	return g
}

// checkPost emits postcondition and frame obligations at a return site.
func (f *frame) checkPost(ri retInfo, pos token.Pos) {
	g := f.g
	con := f.con
	env := &Env{g: g, vars: map[string]Val{}, heap: ri.heap, old: f.entry, callResults: f.callResults}
	f.bindParams(env)
	env.lookup = f.localsAt(f.curBlock)
	for i, n := range con.Results {
		if i < len(ri.vals) {
			env.vars[n] = ri.vals[i]
		}
	}
	if len(ri.vals) == 1 {
		env.vars["result"] = ri.vals[0]
	}
	if len(con.Ghostsets) > 0 {
		h := ri.heap.clone()
		for _, gs := range con.Ghostsets {
			func() {
				defer func() {
					if r := recover(); r != nil {
						if te, ok := r.(trError); ok {
							g.errorf("%s: ghostset %s: %s", con.Name, gs.Src, string(te))
							return
						}
						panic(r)
					}
				}()
				le, err := parseExpr(gs.Loc)
				if err != nil {
					trFail("%v", err)
				}
				cur := *env
				cur.heap = h
				lv := g.tr(stripParens(le), &cur)
				if lv.Loc == nil || !strings.HasPrefix(lv.Loc.Arr, "G!") {
					trFail("target is not a ghost field")
				}
				v := g.tr(gs.E, &cur)
				if v.Nil {
					v = g.nilOf(lv.Ty)
				}
				g.storeLoc(h, lv.Loc, v.T)
			}()
		}
		ri.heap = h
		env.heap = h
	}
	for i, cl := range con.Ensures {
		if cl.Assumed {
			g.assumedPosts[con.Name+": "+cl.Src] = true
			continue
		}
		t, err := g.trBool(cl.E, env)
		name := "post:" + clauseLabel(cl, i)
		if err != nil {
			g.errorf("%s/%s: %v", con.Name, name, err)
			t = "false"
		}
		g.addObl("post", name, f.clauseProps(cl), ri.reach, t, nil, cl.Src, pos)
	}
	// fresh results
	for _, frs := range con.Fresh {
		fr := frs
		guard := ri.reach
		if i := strings.Index(frs, " if "); i >= 0 {
			fr = strings.TrimSpace(frs[:i])
			if ce, err := parseExpr(frs[i+4:]); err == nil {
				if ct, err := g.trBool(stripParens(ce), env); err == nil {
					guard = and(ri.reach, ct)
				}
			}
		}
		if v, ok := env.vars[fr]; ok {
			ref := v.T
			if sortOf(v.Ty) == "Iface" {
				ref = "(i-val " + v.T + ")"
			} else if sortOf(v.Ty) == "Slice" {
				ref = "(s-arr " + v.T + ")"
			}
			g.addObl("post", "post:fresh-"+fr, f.props, guard,
				fmt.Sprintf("(and (not (= %s 0)) (not (select %s %s)))", ref, g.arr(f.entry, "alloc", "Bool"), ref), nil, "fresh "+fr, pos)
		}
	}
	f.checkFrame(ri, pos)
}

// frameGoal: "every location of heap array `name` that existed at entry and is not covered by
// the contract's modifies clause has its entry value in version cur". ok=false if the whole array may change.
func (f *frame) frameGoal(name, cur string) (string, bool) {
	g := f.g
	if name == "alloc" || strings.HasPrefix(name, "G!iter!") {
		return "", false
	}
	if _, vol := g.W.volatile[name]; vol {
		return "", false
	}
	if f.mods == nil {
		oldEnv := &Env{g: g, vars: map[string]Val{}, heap: f.entry, old: f.entry}
		f.bindParams(oldEnv)
		f.mods = map[string][]modLoc{}
		for _, m := range g.resolveMods(f.con, oldEnv) {
			f.mods[m.arr] = append(f.mods[m.arr], m)
		}
	}
	old := g.arr(f.entry, name, g.heapArrs[name])
	al0 := g.arr(f.entry, "alloc", "Bool")
	var excl []string
	var sliceMods []modLoc
	for _, m := range f.mods[name] {
		switch {
		case m.freshOnly:
			// only cells that did not exist at entry may change: the frame condition below (over the cells
			// allocated at entry) stays as it is
		case m.all && m.slice != nil:
			sliceMods = append(sliceMods, m)
		case m.idx == "":
			return "", false
		default:
			if m.cond != "" {
				excl = append(excl, fmt.Sprintf("(not (and %s (= x!fr %s)))", m.cond, m.idx))
			} else {
				excl = append(excl, fmt.Sprintf("(not (= x!fr %s))", m.idx))
			}
		}
	}
	conds := []string{fmt.Sprintf("(select %s x!fr)", al0)}
	conds = append(conds, excl...)
	if len(sliceMods) > 0 {
		var inner []string
		for _, m := range sliceMods {
			sl := m.slice.T
			inner = append(inner, fmt.Sprintf("(and (= x!fr (s-arr %[1]s)) (<= (s-off %[1]s) k!fr) (< k!fr (+ (s-off %[1]s) (s-len %[1]s))))", sl))
		}
		pat := ""
		if !strings.ContainsAny(cur, "( ") {
			pat = fmt.Sprintf(" :pattern ((select (select %s x!fr) k!fr))", cur)
		}
		return fmt.Sprintf("(forall ((x!fr Int) (k!fr Int)) (! (=> (and %s (not %s)) (= (select (select %s x!fr) k!fr) (select (select %s x!fr) k!fr))) :qid frame%s))",
			strings.Join(conds, " "), or(inner...), cur, old, pat), true
	}
	pat := ""
	if !strings.ContainsAny(cur, "( ") {
		pat = fmt.Sprintf(" :pattern ((select %s x!fr))", cur)
	}
	return fmt.Sprintf("(forall ((x!fr Int)) (! (=> (and %s) (= (select %s x!fr) (select %s x!fr))) :qid frame%s))", strings.Join(conds, " "), cur, old, pat), true
}

// checkFrame: every heap location that existed at entry and is not covered by "modifies" is unchanged.
func (f *frame) checkFrame(ri retInfo, pos token.Pos) {
	g := f.g
	for _, name := range sortedKeys(ri.heap.cur) {
		cur := ri.heap.cur[name]
		if cur == g.arr(f.entry, name, g.heapArrs[name]) || g.clean[name] {
			continue
		}
		if goal, ok := f.frameGoal(name, cur); ok {
			g.addObl("frame", "frame:"+name, f.props, ri.reach, goal, nil, "only locations listed in modifies change in "+name, pos)
		}
	}
}

// computeSweep: functions statically reachable from handleConn (no-panic sweep of C19).
func (w *World) computeSweep() {
	w.sweep = map[string]bool{}
	root := w.funcs["(*Server).handleConn"]
	if root == nil {
		return
	}
	var visit func(fn *ssa.Function)
	visit = func(fn *ssa.Function) {
		n := w.relName(fn)
		if w.sweep[n] || !w.inPkg(fn) {
			return
		}
		w.sweep[n] = true
		for _, b := range fn.Blocks {
			for _, in := range b.Instrs {
				var cc *ssa.CallCommon
				switch x := in.(type) {
				case *ssa.Call:
					cc = &x.Call
				case *ssa.Defer:
					cc = &x.Call
				case *ssa.Go:
					cc = &x.Call
				case *ssa.MakeClosure:
					visit(x.Fn.(*ssa.Function))
				}
				if cc != nil {
					if sf := cc.StaticCallee(); sf != nil {
						visit(sf)
					}
				}
			}
		}
	}
	visit(root)
	// methods of package types reachable through interfaces handed to the backend/library
	for _, extra := range []string{"(*dataReader).Read", "(*lineLimitReader).Read", "(*statusCollector).SetStatus"} {
		if fn := w.funcs[extra]; fn != nil {
			visit(fn)
		}
	}
}

func (w *World) contractsFor(prop string) []*Contract {
	var out []*Contract
	for _, n := range w.db.Order {
		c := w.db.Contracts[n]
		if c.Stub {
			continue
		}
		if prop == "" {
			out = append(out, c)
			continue
		}
		if hasProp(c.Props, prop) {
			out = append(out, c)
			continue
		}
		found := false
		for _, cl := range c.Ensures {
			if hasProp(cl.Props, prop) {
				found = true
			}
		}
		for _, l := range c.Loops {
			for _, cl := range l.Invs {
				if hasProp(cl.Props, prop) {
					found = true
				}
			}
			for _, cl := range l.BackEdge {
				if hasProp(cl.Props, prop) {
					found = true
				}
			}
		}
		// a clause tagged with a property counts for that property wherever it is written: call-site
		// clauses, receive-site clauses and preconditions (checked at the callers, which are selected
		// through their own obligations) included - a tag that the prop line does not repeat must not
		// make the clause invisible
		for _, cls := range c.Before {
			for _, cl := range cls {
				if hasProp(cl.Props, prop) {
					found = true
				}
			}
		}
		for _, cls := range c.RecvObl {
			for _, cl := range cls {
				if hasProp(cl.Props, prop) {
					found = true
				}
			}
		}
		if prop == "C19" && w.sweep[c.Name] {
			found = true
		}
		if found {
			out = append(out, c)
		}
	}
	return out
}

func hasProp(ps []string, p string) bool {
	for _, x := range ps {
		if x == p {
			return true
		}
	}
	return false
}

func sortedInts(m map[int]bool) []int {
	var out []int
	for k := range m {
		out = append(out, k)
	}
	sort.Ints(out)
	return out
}

// callsRecover reports whether fn itself (not its closures) calls the builtin recover.
func callsRecover(fn *ssa.Function) bool {
	for _, b := range fn.Blocks {
		for _, in := range b.Instrs {
			if c, ok := in.(ssa.CallInstruction); ok {
				if bi, ok := c.Common().Value.(*ssa.Builtin); ok && bi.Name() == "recover" {
					return true
				}
			}
		}
	}
	return false
}


func sortedKeysSS(m map[string][]string) []string {
	var ks []string
	for k := range m {
		ks = append(ks, k)
	}
	sort.Strings(ks)
	return ks
}

// onlyUse returns "" if every use of parameter pn of fn is as an argument of one of the allowed callees
// (conversions between interface types, phis and spills to a local are followed; a package function without
// contract that receives the value is followed into), otherwise a description of the first other use.
func (g *Gen) onlyUse(fn *ssa.Function, pn string, allowed []string, depth int) string {
	var start ssa.Value
	for _, p := range fn.Params {
		if p.Name() == pn {
			start = p
		}
	}
	if start == nil {
		return "(no parameter " + pn + ")"
	}
	ok := map[string]bool{}
	for _, a := range allowed {
		ok[a] = true
	}
	seen := map[ssa.Value]bool{}
	work := []ssa.Value{start}
	for len(work) > 0 {
		v := work[len(work)-1]
		work = work[:len(work)-1]
		if seen[v] {
			continue
		}
		seen[v] = true
		refs := v.Referrers()
		if refs == nil {
			continue
		}
		for _, in := range *refs {
			switch x := in.(type) {
			case *ssa.DebugRef:
			case *ssa.MakeInterface:
				work = append(work, x)
			case *ssa.ChangeInterface:
				work = append(work, x)
			case *ssa.ChangeType:
				work = append(work, x)
			case *ssa.Phi:
				work = append(work, x)
			case *ssa.Store:
				if x.Val == v {
					if al, isAl := x.Addr.(*ssa.Alloc); isAl {
						if ar := al.Referrers(); ar != nil {
							for _, u := range *ar {
								if ld, isLd := u.(*ssa.UnOp); isLd && ld.Op == token.MUL {
									work = append(work, ld)
								}
							}
						}
						continue
					}
					return fmt.Sprintf("(stored at %s)", g.W.fset.Position(x.Pos()))
				}
			case ssa.CallInstruction:
				c := x.Common()
				var key string
				if c.IsInvoke() {
					key = g.W.typeName(c.Value.Type()) + "." + c.Method.Name()
				} else if sf := c.StaticCallee(); sf != nil {
					key = g.W.relName(sf)
					if !ok[key] && g.W.inPkg(sf) && g.W.db.Contracts[key] == nil && len(sf.Blocks) > 0 && depth < 3 {
						bad := ""
						for i, a := range c.Args {
							if a == v && i < len(sf.Params) {
								if why := g.onlyUse(sf, sf.Params[i].Name(), allowed, depth+1); why != "" {
									bad = why
								}
							}
						}
						if bad != "" {
							return bad
						}
						continue
					}
				} else {
					key = "dynamic call"
				}
				if !ok[key] {
					return fmt.Sprintf("(used by %s at %s)", key, g.W.fset.Position(in.Pos()))
				}
			default:
				return fmt.Sprintf("(used by %T at %s)", in, g.W.fset.Position(in.Pos()))
			}
		}
	}
	return ""
}
