package main

// Ownership obligations (DESIGN.md 2.7): every access to a field with a declared owner is justified
// either by the guard being in the must-hold lockset at that instruction (forward dataflow over the
// SSA CFG, callee entry locksets = intersection over the static call sites) or by the accessing
// function not being reachable from any other thread root than the command loop.
// These obligations are discharged by the generator's dataflow, not by SMT.

import (
	"fmt"
	"go/token"
	"go/types"
	"sort"
	"strings"

	"golang.org/x/tools/go/ssa"
)

type lockset map[string]bool

func (l lockset) clone() lockset {
	n := lockset{}
	for k := range l {
		n[k] = true
	}
	return n
}

func intersect(a, b lockset) lockset {
	if a == nil {
		return b.clone()
	}
	n := lockset{}
	for k := range a {
		if b[k] {
			n[k] = true
		}
	}
	return n
}

func (l lockset) String() string {
	var ks []string
	for k := range l {
		ks = append(ks, k)
	}
	sort.Strings(ks)
	return "{" + strings.Join(ks, ",") + "}"
}

// mutexName: &x.locker -> "Type.locker"
func (w *World) mutexName(v ssa.Value) string {
	fa, ok := v.(*ssa.FieldAddr)
	if !ok {
		return ""
	}
	pt, ok := fa.X.Type().Underlying().(*types.Pointer)
	if !ok {
		return ""
	}
	st, ok := pt.Elem().Underlying().(*types.Struct)
	if !ok {
		return ""
	}
	return w.typeName(pt.Elem()) + "." + st.Field(fa.Field).Name()
}

type ownAnalysis struct {
	w       *World
	entry   map[*ssa.Function]lockset // must-hold lockset at function entry (nil = not yet known / top)
	at      map[ssa.Instruction]lockset
	foreign map[*ssa.Function]string // functions reachable from a thread root other than the command loop
}

func (w *World) pkgFunctions() []*ssa.Function {
	var fs []*ssa.Function
	for _, f := range w.funcs {
		if len(f.Blocks) > 0 {
			fs = append(fs, f)
		}
	}
	sort.Slice(fs, func(i, j int) bool { return w.relName(fs[i]) < w.relName(fs[j]) })
	return fs
}

func (a *ownAnalysis) transfer(fn *ssa.Function, in lockset) (changed bool) {
	// block-level forward dataflow
	outs := map[int]lockset{}
	ins := map[int]lockset{0: in.clone()}
	work := []int{0}
	for len(work) > 0 {
		bi := work[0]
		work = work[1:]
		b := fn.Blocks[bi]
		cur := ins[bi].clone()
		for _, instr := range b.Instrs {
			if prev, ok := a.at[instr]; !ok || prev.String() != cur.String() {
				a.at[instr] = cur.clone()
				changed = true
			}
			var cc *ssa.CallCommon
			switch x := instr.(type) {
			case *ssa.Call:
				cc = &x.Call
			case *ssa.Defer:
				// deferred Unlock keeps the lock until the function returns: no effect here
				continue
			case *ssa.Go:
				cc = nil
			}
			if cc == nil {
				continue
			}
			if sf := cc.StaticCallee(); sf != nil {
				switch sf.String() {
				case "(*sync.Mutex).Lock", "(*sync.RWMutex).Lock":
					if n := a.w.mutexName(cc.Args[0]); n != "" {
						cur[n] = true
					}
				case "(*sync.Mutex).Unlock", "(*sync.RWMutex).Unlock":
					if n := a.w.mutexName(cc.Args[0]); n != "" {
						delete(cur, n)
					}
				default:
					if a.w.inPkg(sf) && len(sf.Blocks) > 0 {
						ne := intersect(a.entry[sf], cur)
						if a.entry[sf] == nil || ne.String() != a.entry[sf].String() {
							a.entry[sf] = ne
							changed = true
						}
					}
				}
			}
		}
		if o, ok := outs[bi]; ok && o.String() == cur.String() {
			continue
		}
		outs[bi] = cur
		for _, s := range b.Succs {
			ni := intersect(ins[s.Index], cur)
			if _, seen := ins[s.Index]; !seen || ni.String() != ins[s.Index].String() {
				ins[s.Index] = ni
				work = append(work, s.Index)
			}
		}
	}
	return changed
}

// isRoot: functions whose callers are unknown (exported API, thread roots, closures, address-taken).
func (a *ownAnalysis) isRoot(fn *ssa.Function, called map[*ssa.Function]bool) bool {
	if fn.Parent() != nil {
		return true // closures: entered with whatever the spawner/caller holds; conservatively nothing
	}
	if fn.Object() != nil && fn.Object().Exported() {
		return true
	}
	return !called[fn]
}

func (w *World) ownershipObligations() []*Obligation {
	if len(w.db.Owners) == 0 && len(w.db.CallHolds) == 0 {
		return nil
	}
	a := &ownAnalysis{w: w, entry: map[*ssa.Function]lockset{}, at: map[ssa.Instruction]lockset{}, foreign: map[*ssa.Function]string{}}
	fns := w.pkgFunctions()
	called := map[*ssa.Function]bool{}
	for _, fn := range fns {
		for _, b := range fn.Blocks {
			for _, in := range b.Instrs {
				if c, ok := in.(*ssa.Call); ok {
					if sf := c.Call.StaticCallee(); sf != nil {
						called[sf] = true
					}
				}
				if d, ok := in.(*ssa.Defer); ok {
					if sf := d.Call.StaticCallee(); sf != nil {
						called[sf] = true
					}
				}
			}
		}
	}
	for _, fn := range fns {
		if a.isRoot(fn, called) {
			a.entry[fn] = lockset{}
		}
	}
	// deferred closures run with the locks the function holds at its returns; treated as roots (empty set)
	for iter := 0; iter < 20; iter++ {
		changed := false
		for _, fn := range fns {
			if a.entry[fn] == nil {
				continue
			}
			if a.transfer(fn, a.entry[fn]) {
				changed = true
			}
		}
		if !changed {
			break
		}
	}
	// foreign threads: closures started with `go`, Server.Close, Server.Shutdown and what they reach
	var visit func(fn *ssa.Function, root string)
	visit = func(fn *ssa.Function, root string) {
		if _, ok := a.foreign[fn]; ok || !w.inPkg(fn) || len(fn.Blocks) == 0 {
			return
		}
		a.foreign[fn] = root
		for _, b := range fn.Blocks {
			for _, in := range b.Instrs {
				switch x := in.(type) {
				case *ssa.Call:
					if sf := x.Call.StaticCallee(); sf != nil {
						visit(sf, root)
					}
				case *ssa.Defer:
					if sf := x.Call.StaticCallee(); sf != nil {
						visit(sf, root)
					}
				case *ssa.MakeClosure:
					// a closure created here runs in this thread unless it is started with `go` elsewhere
					if cf, ok := x.Fn.(*ssa.Function); ok {
						visit(cf, root)
					}
				}
			}
		}
	}
	for _, fn := range fns {
		for _, b := range fn.Blocks {
			for _, in := range b.Instrs {
				if g, ok := in.(*ssa.Go); ok {
					if sf := g.Call.StaticCallee(); sf != nil && sf.Name() != "handleConn" && !strings.Contains(w.relName(sf), "Serve$") {
						visit(sf, "go "+w.relName(sf))
					}
				}
			}
		}
	}
	for _, name := range []string{"(*Server).Close", "(*Server).Shutdown"} {
		if fn := w.funcs[name]; fn != nil {
			visit(fn, name)
		}
	}

	owners := map[string]string{}
	for _, o := range w.db.Owners {
		owners[o.Field] = o.Rule
	}
	var obls []*Obligation
	counter := map[string]int{}
	hit := map[string]int{}
	for _, fn := range fns {
		fname := w.relName(fn)
		for _, b := range fn.Blocks {
			for _, in := range b.Instrs {
				fa, ok := in.(*ssa.FieldAddr)
				if !ok {
					continue
				}
				pt, ok := fa.X.Type().Underlying().(*types.Pointer)
				if !ok {
					continue
				}
				st, ok := pt.Elem().Underlying().(*types.Struct)
				if !ok {
					continue
				}
				field := w.typeName(pt.Elem()) + "." + st.Field(fa.Field).Name()
				rule, declared := owners[field]
				if !declared {
					continue
				}
				// only real accesses (loads / stores through this address)
				used := false
				write := false
				for _, ref := range *fa.Referrers() {
					switch r := ref.(type) {
					case *ssa.UnOp:
						if r.Op == token.MUL {
							used = true
						}
					case *ssa.Store:
						if r.Addr == fa {
							used, write = true, true
						}
					case *ssa.MapUpdate, *ssa.Lookup, *ssa.Range:
						used = true
					}
				}
				if !used {
					continue
				}
				// the object is being constructed in this function: not yet shared
				if _, isAlloc := fa.X.(*ssa.Alloc); isAlloc {
					continue
				}
				hit[field]++
				key := fname + ":" + field
				counter[key]++
				kind := "read"
				if write {
					kind = "write"
				}
				o := &Obligation{Name: fmt.Sprintf("%s/own:%s#%d", fname, field, counter[key]), Func: fname, Kind: "own", Props: []string{"C20"},
					Src: fmt.Sprintf("%s of %s: %s", kind, field, rule), Solver: "ownership-dataflow", Pos: w.fset.Position(fa.Pos())}
				switch {
				case strings.HasPrefix(rule, "guarded-by "):
					guard := strings.TrimSpace(strings.TrimPrefix(rule, "guarded-by "))
					ls := a.at[in]
					if ls[guard] {
						o.Status = "unsat"
					} else {
						o.Status = "sat"
						o.Output = fmt.Sprintf("must-hold lockset at this access is %s; %s is required", ls, guard)
					}
				case rule == "cmdloop":
					if root, foreign := a.foreign[fn]; foreign {
						o.Status = "sat"
						o.Output = fmt.Sprintf("the access is reachable from thread root %q, the field belongs to the command loop", root)
					} else {
						o.Status = "unsat"
					}
				case rule == "immutable":
					if write {
						o.Status = "sat"
						o.Output = "write to a field declared immutable after construction"
					} else {
						o.Status = "unsat"
					}
				default:
					o.Status = "error"
					o.Output = "unknown ownership rule " + rule
				}
				obls = append(obls, o)
			}
		}
	}
	// call sites that must lie inside a critical section
	for _, ch := range w.db.CallHolds {
		root := w.funcs[ch.Func]
		found := 0
		// the function itself and the package functions it calls (a helper that does the call on its behalf)
		var reach []*ssa.Function
		seenFn := map[*ssa.Function]bool{}
		var walk func(f *ssa.Function)
		walk = func(f *ssa.Function) {
			if f == nil || seenFn[f] || !w.inPkg(f) || len(f.Blocks) == 0 {
				return
			}
			seenFn[f] = true
			reach = append(reach, f)
			for _, b := range f.Blocks {
				for _, in := range b.Instrs {
					if call, ok := in.(*ssa.Call); ok {
						if sf := call.Call.StaticCallee(); sf != nil {
							walk(sf)
						}
					}
				}
			}
		}
		walk(root)
		for _, fn := range reach {
			for _, b := range fn.Blocks {
				for _, in := range b.Instrs {
					call, ok := in.(*ssa.Call)
					if !ok {
						continue
					}
					name := ""
					if call.Call.IsInvoke() {
						name = call.Call.Method.FullName()
					} else if sf := call.Call.StaticCallee(); sf != nil {
						name = sf.String()
					}
					// "(pkg/path.Type).Method" -> "Type.Method"
					short := name
					if i := strings.LastIndex(short, "/"); i >= 0 {
						short = short[i+1:]
					}
					if i := strings.Index(short, "."); i >= 0 && strings.HasPrefix(name, "(") {
						short = short[i+1:]
					}
					short = strings.NewReplacer("(", "", ")", "", "*", "").Replace(short)
					if short != ch.Callee {
						continue
					}
					found++
					o := &Obligation{Name: fmt.Sprintf("%s/holds:%s@%s#%d", ch.Func, ch.Guard, ch.Callee, found), Func: ch.Func, Kind: "own", Props: []string{"C20"},
						Src: fmt.Sprintf("call of %s inside a critical section of %s", ch.Callee, ch.Guard), Solver: "ownership-dataflow", Pos: w.fset.Position(call.Pos())}
					if a.at[in][ch.Guard] {
						o.Status = "unsat"
					} else {
						o.Status = "sat"
						o.Output = fmt.Sprintf("must-hold lockset at this call is %s; %s is required (the check of the shared state and the call would not be atomic)", a.at[in], ch.Guard)
					}
					obls = append(obls, o)
				}
			}
		}
		if found == 0 {
			obls = append(obls, &Obligation{Name: fmt.Sprintf("%s/holds:%s@%s/call-site-exists", ch.Func, ch.Guard, ch.Callee), Func: ch.Func, Kind: "own", Props: []string{"C20"},
				Src: "the declared call site exists", Status: "sat", Solver: "ownership-dataflow", Output: "no such call in that function (renamed or moved?)"})
		}
	}
	// lock balance (no deadlock by a leaked lock): on every path to a return each mutex locked in the function
	// has been unlocked again or is unlocked by a deferred call (may-hold dataflow, union at merges)
	for _, fn := range fns {
		obls = append(obls, w.lockBalance(fn)...)
	}
	// a declaration that matches no access at all would be vacuous: fail closed
	for _, od := range w.db.Owners {
		if hit[od.Field] == 0 {
			obls = append(obls, &Obligation{Name: "own:" + od.Field + "/declared-field-is-accessed", Func: "-", Kind: "own", Props: []string{"C20"},
				Src: "ownership declaration matches at least one access", Status: "sat", Solver: "ownership-dataflow", Output: "no access to this field was found (renamed?)"})
		}
	}
	return obls
}

// lockBalance: one obligation per mutex that fn locks.
func (w *World) lockBalance(fn *ssa.Function) []*Obligation {
	locked := map[string]bool{}
	deferred := map[string]bool{}
	lockOp := func(cc *ssa.CallCommon) (string, string) {
		if sf := cc.StaticCallee(); sf != nil && len(cc.Args) > 0 {
			switch sf.String() {
			case "(*sync.Mutex).Lock", "(*sync.RWMutex).Lock":
				return "lock", w.mutexName(cc.Args[0])
			case "(*sync.Mutex).Unlock", "(*sync.RWMutex).Unlock":
				return "unlock", w.mutexName(cc.Args[0])
			}
		}
		return "", ""
	}
	for _, b := range fn.Blocks {
		for _, in := range b.Instrs {
			switch x := in.(type) {
			case *ssa.Call:
				if op, n := lockOp(&x.Call); op == "lock" && n != "" {
					locked[n] = true
				}
			case *ssa.Defer:
				if op, n := lockOp(&x.Call); op == "unlock" && n != "" {
					deferred[n] = true
				}
			}
		}
	}
	if len(locked) == 0 {
		return nil
	}
	ins := map[int]lockset{0: {}}
	work := []int{0}
	leaked := map[string]string{}
	outs := map[int]string{}
	for len(work) > 0 {
		bi := work[0]
		work = work[1:]
		cur := ins[bi].clone()
		for _, in := range fn.Blocks[bi].Instrs {
			switch x := in.(type) {
			case *ssa.Call:
				switch op, n := lockOp(&x.Call); op {
				case "lock":
					if n != "" {
						cur[n] = true
					}
				case "unlock":
					delete(cur, n)
				}
			case *ssa.Return:
				for n := range cur {
					if !deferred[n] {
						leaked[n] = w.fset.Position(x.Pos()).String()
					}
				}
			}
		}
		if o, ok := outs[bi]; ok && o == cur.String() {
			continue
		}
		outs[bi] = cur.String()
		for _, s := range fn.Blocks[bi].Succs {
			ni := ins[s.Index].clone()
			if ni == nil {
				ni = lockset{}
			}
			before := ni.String()
			for n := range cur {
				ni[n] = true
			}
			if _, seen := ins[s.Index]; !seen || ni.String() != before {
				ins[s.Index] = ni
				work = append(work, s.Index)
			}
		}
	}
	var out []*Obligation
	var names []string
	for n := range locked {
		names = append(names, n)
	}
	sort.Strings(names)
	for _, n := range names {
		o := &Obligation{Name: fmt.Sprintf("%s/released-before-return:%s", w.relName(fn), n), Func: w.relName(fn), Kind: "own", Props: []string{"C20"},
			Src: fmt.Sprintf("every path from a Lock of %s to a return passes an Unlock (or one is deferred)", n), Solver: "ownership-dataflow", Pos: w.fset.Position(fn.Pos()), Status: "unsat"}
		if at, bad := leaked[n]; bad {
			o.Status = "sat"
			o.Output = fmt.Sprintf("%s may still be held at the return at %s: the next Lock of it blocks for ever", n, at)
		}
		out = append(out, o)
	}
	return out
}
