package main

// Bounded stand-ins (DESIGN.md 2.11 / 8.9): for the few functions that cannot be brought within the
// verifier's reach (regexp-driven decoders, library parsing on the client side, the hand-written path
// parser whose grammar has no contract), the real function is run over a stated, exhaustively
// enumerated bound by a test injected with `go test -overlay` (nothing is written to the repository).
// They are reported as obligations of kind "bounded", listed separately in the evidence and NEVER
// counted among the discharged (proved) obligations. A failure comes with a real failing input.

import (
	"encoding/json"
	"fmt"
	"os"
	"os/exec"
	"path/filepath"
	"regexp"
	"strconv"
	"strings"
	"time"
)

type boundedSpec struct {
	File string // under /verif/bounded
	Test string
}

var boundedByProp = map[string][]boundedSpec{
	"C05": {{"c05_bounded_test.go", "TestBoundedC05"}},
	"C09": {{"c09_bounded_test.go", "TestBoundedC09"}},
	"C11": {{"c11_bounded_test.go", "TestBoundedC11"}, {"c11path_bounded_test.go", "TestBoundedC11Path"}, {"c11params_bounded_test.go", "TestBoundedC11Params"}},
	"C13": {{"c13_bounded_test.go", "TestBoundedC13"}},
	"C14": {{"c14_bounded_test.go", "TestBoundedC14"}},
	"C16": {{"c16_bounded_test.go", "TestBoundedC16"}},
	"C17": {{"c17_bounded_test.go", "TestBoundedC17"}},
	"C19": {{"c19_bounded_test.go", "TestBoundedC19"}},
}

var boundedTier = "quick"

var reBounded = regexp.MustCompile(`^BOUNDED name=(\S+) evaluations=(\d+) bound=("(?:[^"\\]|\\.)*") status=(ok|FAIL)(?: input=("(?:[^"\\]|\\.)*") detail=("(?:[^"\\]|\\.)*"))?`)

func boundedObligations(verif, repo, prop string) []*Obligation {
	specs := boundedByProp[prop]
	if len(specs) == 0 {
		return nil
	}
	var out []*Obligation
	for _, sp := range specs {
		t0 := time.Now()
		text, err := runBounded(verif, repo, sp)
		secs := time.Since(t0).Seconds()
		found := 0
		for _, line := range strings.Split(text, "\n") {
			m := reBounded.FindStringSubmatch(strings.TrimSpace(line))
			if m == nil {
				continue
			}
			found++
			bound, _ := strconv.Unquote(m[3])
			n, _ := strconv.Atoi(m[2])
			o := &Obligation{Name: "bounded:" + m[1], Func: sp.Test, Kind: "bounded", Props: []string{prop}, Src: "BOUNDED (not a proof) over: " + bound,
				Solver: "go test -overlay, exhaustive enumeration of the stated bound", Seconds: secs, Status: "unsat", Evals: n}
			if m[4] == "FAIL" {
				in, _ := strconv.Unquote(m[5])
				detail, _ := strconv.Unquote(m[6])
				o.Status = "sat"
				o.Model = map[string]string{"input": strconv.Quote(in)}
				o.Output = fmt.Sprintf("failing input (real code, no model involved): %q\n%s\nre-run: go test -overlay <%s> -run '^%s$' in the repository", in, detail, sp.File, sp.Test)
				o.Reproduced = true
			}
			out = append(out, o)
		}
		if found == 0 {
			// fail closed: the harness did not build or did not run
			msg := text
			if err != nil {
				msg = err.Error() + "\n" + text
			}
			out = append(out, &Obligation{Name: "bounded:" + sp.Test + "/harness-runs", Func: sp.Test, Kind: "bounded", Props: []string{prop},
				Src: "the bounded stand-in builds against the current tree and reports its results", Solver: "go test -overlay", Seconds: secs, Status: "error", Output: truncate(msg, 4000)})
		}
	}
	return out
}

func runBounded(verif, repo string, sp boundedSpec) (string, error) {
	dir, err := os.MkdirTemp("", "govc-bounded")
	if err != nil {
		return "", err
	}
	defer os.RemoveAll(dir)
	repl := map[string]string{}
	files := []string{"common_bounded_test.go", "fakeconn_bounded_test.go", sp.File}
	if sp.File == "c11params_bounded_test.go" {
		files = append(files, "c11_bounded_test.go", "c11path_bounded_test.go")
	}
	if sp.File == "c05_bounded_test.go" || sp.File == "c19_bounded_test.go" {
		files = append(files, "c13_bounded_test.go") // the address type of the scripted connection
	}
	if sp.File == "c19_bounded_test.go" {
		files = append(files, "c05_bounded_test.go")
	}
	for _, f := range files {
		repl[filepath.Join(repo, "zz_"+f)] = filepath.Join(verif, "bounded", f)
	}
	ovb, _ := json.Marshal(map[string]map[string]string{"Replace": repl})
	ovf := filepath.Join(dir, "overlay.json")
	os.WriteFile(ovf, ovb, 0o644)
	cmd := exec.Command("go", "test", "-overlay", ovf, "-vet=off", "-count=1", "-timeout", "600s", "-run", "^"+sp.Test+"$", "-v", ".")
	cmd.Dir = repo
	cmd.Env = append(os.Environ(), "GOFLAGS=-mod=mod", "GOPROXY=off", "GOSUMDB=off", "GOTOOLCHAIN=local", "VERIF_TIER="+boundedTier)
	out, err := cmd.CombinedOutput()
	return string(out), err
}
