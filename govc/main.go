package main

import (
	"flag"
	"fmt"
	"os"
	"path/filepath"
	"runtime"
	"sort"
	"strings"
	"time"
)

func usage() {
	fmt.Fprintln(os.Stderr, `usage:
  govc check <Cxx> [-tier quick|thorough] [-repo DIR] [-verif DIR]
  govc dump -func NAME [-obl SUBSTR]
  govc list [-prop Cxx]`)
	os.Exit(2)
}

func main() {
	if len(os.Args) < 2 {
		usage()
	}
	cmd := os.Args[1]
	fs := flag.NewFlagSet(cmd, flag.ExitOnError)
	repo := fs.String("repo", "/repo", "repository to verify")
	verif := fs.String("verif", defaultVerifRoot(), "verification root (spec/, evidence/, ...)")
	tier := fs.String("tier", envOr("VERIF_TIER", "quick"), "quick or thorough")
	fnName := fs.String("func", "", "function (contract) name")
	oblSub := fs.String("obl", "", "obligation name substring")
	prop := fs.String("prop", "", "property id")
	verbose := fs.Bool("v", false, "verbose")
	noEvidence := fs.Bool("no-evidence", false, "do not write the evidence file")
	args := os.Args[2:]
	var pos []string
	for len(args) > 0 && !strings.HasPrefix(args[0], "-") {
		pos = append(pos, args[0])
		args = args[1:]
	}
	fs.Parse(args)
	pos = append(pos, fs.Args()...)

	switch cmd {
	case "check":
		if len(pos) != 1 {
			usage()
		}
		os.Exit(runCheck(pos[0], *tier, *repo, *verif, *verbose, !*noEvidence))
	case "dump":
		w, err := loadWorld(*repo, *verif)
		if err != nil {
			fatal(err)
		}
		w.computeSweep()
		con := w.db.Contracts[*fnName]
		if con == nil {
			fatal(fmt.Errorf("no contract for %q", *fnName))
		}
		g := w.verifyContract(con)
		for _, e := range g.errs {
			fmt.Println("; ERROR:", e)
		}
		for _, n := range g.notes {
			fmt.Println("; note:", n)
		}
		if *oblSub == "" {
			fmt.Print(prelude)
			for _, l := range g.lines {
				fmt.Println(l)
			}
			for _, o := range g.obls {
				fmt.Printf("; OBLIGATION %s [%s] guard=%s\n;   goal=%s\n", o.Name, strings.Join(o.Props, ","), o.Guard, o.Goal)
			}
			return
		}
		for _, o := range g.obls {
			if strings.Contains(o.Name, *oblSub) {
				fmt.Print(o.query(true))
				return
			}
		}
		fatal(fmt.Errorf("no obligation matching %q", *oblSub))
	case "list":
		w, err := loadWorld(*repo, *verif)
		if err != nil {
			fatal(err)
		}
		w.computeSweep()
		for _, con := range w.contractsFor(*prop) {
			g := w.verifyContract(con)
			for _, e := range g.errs {
				fmt.Println("ERROR:", e)
			}
			for _, o := range g.obls {
				if *prop == "" || hasProp(o.Props, *prop) {
					fmt.Printf("%-90s %s\n", o.Name, strings.Join(o.Props, ","))
				}
			}
		}
	case "selftest":
		os.Exit(runSelftest(*verif, *repo, pos, *verbose))
	default:
		usage()
	}
}

func envOr(k, d string) string {
	if v := os.Getenv(k); v != "" {
		return v
	}
	return d
}

func defaultVerifRoot() string {
	if exe, err := os.Executable(); err == nil {
		d := filepath.Dir(filepath.Dir(exe))
		if _, err := os.Stat(filepath.Join(d, "spec")); err == nil {
			return d
		}
	}
	return "/verif"
}

func fatal(err error) {
	fmt.Fprintln(os.Stderr, "govc:", err)
	os.Exit(3)
}

type checkRun struct {
	prop     string
	tier     string
	gens     []*Gen
	obls     []*Obligation
	wall     float64
	errs     []string
	w        *World
	vacuity  []map[string]string // thorough tier: outcome of the property's must-fail / must-pass corpus
}

// generate builds all obligations of a property.
func generate(w *World, prop string) *checkRun {
	run := &checkRun{prop: prop, w: w}
	for _, con := range w.contractsFor(prop) {
		g := w.verifyContract(con)
		run.gens = append(run.gens, g)
		for _, e := range g.errs {
			run.errs = append(run.errs, con.Name+": "+e)
		}
		for _, o := range g.obls {
			if hasProp(o.Props, prop) || (o.Kind == "cover" && true) {
				if o.Kind == "cover" && !hasProp(o.Props, prop) {
					// cover obligations of functions that contribute obligations to this property
					contributes := false
					for _, o2 := range g.obls {
						if o2 != o && hasProp(o2.Props, prop) {
							contributes = true
							break
						}
					}
					if !contributes {
						continue
					}
					o.Props = append(o.Props, prop)
				}
				o.Inputs = g.inputs
				run.obls = append(run.obls, o)
			}
		}
	}
	if prop == "C20" {
		run.obls = append(run.obls, w.ownershipObligations()...)
	}
	if prop == "C13" || prop == "C04" {
		// "the status / result of THIS transfer": the delivery goroutines touch the transfer-scoped fields of
		// Conn only through the values captured at start (ownership obligations shared with C20)
		fields := map[string][]string{"C13": {"own:Conn.bdatStatus", "own:Conn.recipients"}, "C04": {"own:Conn.dataResult"}}[prop]
		for _, o := range w.ownershipObligations() {
			for _, f := range fields {
				if strings.Contains(o.Name, "/"+f+"#") {
					o.Props = []string{prop, "C20"}
					run.obls = append(run.obls, o)
				}
			}
		}
	}
	if prop == "C08" {
		// "logged out exactly once" under concurrent Close: the critical-section obligations of the Logout call sites
		for _, o := range w.ownershipObligations() {
			if strings.Contains(o.Name, "/holds:") && strings.Contains(o.Name, "Session.Logout") {
				o.Props = []string{"C08", "C20"}
				run.obls = append(run.obls, o)
			}
		}
	}
	return run
}

func runCheck(prop, tier, repo, verif string, verbose, writeEv bool) int {
	t0 := time.Now()
	w, err := loadWorld(repo, verif)
	if err != nil {
		fmt.Printf("VIOLATION property=%s replay=%s no-failing-input-found\n", prop, writeLoadFailure(verif, prop, err))
		return 1
	}
	w.computeSweep()
	run := generate(w, prop)
	run.tier = tier
	qt, st := 6*time.Second, 12*time.Second
	all := false
	if tier == "thorough" {
		qt, st = 30*time.Second, 60*time.Second
		all = true
	}
	// obligations recorded as open findings are expected to fail: give them a short limit only
	kf := loadKnown(verif)
	var normal, expectedFail []*Obligation
	for _, o := range run.obls {
		if kf.open(prop, o.Name) != nil {
			expectedFail = append(expectedFail, o)
		} else {
			normal = append(normal, o)
		}
	}
	dischargeAll(normal, runtime.NumCPU(), qt, st, all)
	dischargeAll(expectedFail, runtime.NumCPU(), 4*time.Second, 4*time.Second, false)
	secondChance(normal, qt, st)
	boundedTier = tier
	run.obls = append(run.obls, boundedObligations(verif, repo, prop)...)
	if tier == "thorough" {
		run.vacuity = vacuityCorpus(verif, repo, prop)
	}
	run.wall = time.Since(t0).Seconds()
	return report(run, verif, verbose, writeEv)
}

// secondChance re-runs obligations that ended without a definite answer, a few at a time and with
// longer limits, so that machine load during the parallel pass cannot turn into an alarm.
func secondChance(obls []*Obligation, qt, st time.Duration) {
	var again []*Obligation
	for _, o := range obls {
		if !o.ok() && o.Status != "sat" && o.Status != "unsat" {
			again = append(again, o)
		}
	}
	if len(again) == 0 || len(again) > 200 {
		return
	}
	first := make(map[*Obligation]float64)
	for _, o := range again {
		first[o] = o.Seconds
	}
	dischargeAll(again, 4, 3*qt, 3*st, false)
	for _, o := range again {
		o.Seconds += first[o]
	}
}

func writeLoadFailure(verif, prop string, err error) string {
	dir := filepath.Join(verif, "replays")
	os.MkdirAll(dir, 0o755)
	p := filepath.Join(dir, prop+"-load-failure.txt")
	os.WriteFile(p, []byte("obligation: load /repo with -tags verif\n\n"+err.Error()+"\n"), 0o644)
	return p
}

func sortObls(obls []*Obligation) {
	sort.SliceStable(obls, func(i, j int) bool { return obls[i].Name < obls[j].Name })
}
