package main

// Translation of specification expressions to SMT terms.

import (
	"fmt"
	"go/constant"
	"go/types"
	"strings"

	"golang.org/x/tools/go/ssa"
)

// Val is a symbolic value: an SMT term with its Go (or spec pseudo) type.
type Val struct {
	T   string
	Ty  types.Type
	Tup []Val
	Loc *Loc // set when the value is a statically known address
	Nil bool // untyped nil literal
	Cell bool // a captured variable: T is the address of its cell, a name in a contract means its current content
	SSA  ssa.Value // the SSA value this symbolic value came from (for Go-side evaluation of constant formats)
}

// Loc describes a memory location: element Idx of heap array Arr (and position Pos inside a slice backing array).
type Loc struct {
	Arr    string // heap array name
	Sort   string // sort of the stored element (for slices: sort of one element)
	Idx    string // ref / array id
	Pos    string // non-empty: position within backing array (E! arrays)
	Ty     types.Type
	Struct bool   // location of a whole struct (fields addressed through Idx as ref)
	Global *ssa.Global
}

type Env struct {
	g      *Gen
	vars   map[string]Val
	heap   *Heap
	old    *Heap
	bound  map[string]bool
	lookup func(name string) (Val, bool)
	entry  map[string]Val // entry values of parameters (for old(x) and x0)
	sset   map[string]map[string]string
	callResults map[string][]Val
	headVars    map[string]Val // loop variables at the loop head (for head(x) in back-edge clauses)
	frame  *frame
	headHeap *Heap // heap at the loop head of the current iteration (back-edge clauses)
	noUnfold bool
	depth  int
}

func (e *Env) withHeap(h *Heap) *Env {
	n := *e
	n.heap = h
	return &n
}

func (e *Env) bind(name string, v Val) *Env {
	n := *e
	n.vars = make(map[string]Val, len(e.vars)+1)
	for k, x := range e.vars {
		n.vars[k] = x
	}
	n.vars[name] = v
	return &n
}

type trError string

func trFail(f string, a ...interface{}) { panic(trError(fmt.Sprintf(f, a...))) }

// trBool translates a boolean spec expression; errors are returned, not panicked.
func (g *Gen) trBool(e Expr, env *Env) (term string, err error) {
	defer func() {
		if r := recover(); r != nil {
			if te, ok := r.(trError); ok {
				err = fmt.Errorf("%s (in %s)", string(te), exprString(e))
				return
			}
			panic(r)
		}
	}()
	v := g.tr(e, env)
	if sortOf(v.Ty) != "Bool" {
		trFail("expected boolean, got %s", v.Ty)
	}
	return v.T, nil
}

// sealed: a named struct type of another package none of whose fields is exported (time.Time): the
// package under verification can only copy and compare it as a whole, so its values are modelled as
// opaque values kept in the array S!<type> (indexed by the address of the struct).
func (g *Gen) sealed(t types.Type) (string, bool) {
	n, ok := t.(*types.Named)
	if !ok || n.Obj().Pkg() == nil || n.Obj().Pkg() == g.W.tpkg {
		return "", false
	}
	st, ok := n.Underlying().(*types.Struct)
	if !ok || st.NumFields() == 0 {
		return "", false
	}
	for i := 0; i < st.NumFields(); i++ {
		if st.Field(i).Exported() {
			return "", false
		}
	}
	return "S!" + g.W.typeName(t), true
}

func (g *Gen) structOf(t types.Type) (*types.Struct, types.Type) {
	if p, ok := t.Underlying().(*types.Pointer); ok {
		t = p.Elem()
	}
	if s, ok := t.Underlying().(*types.Struct); ok {
		return s, t
	}
	return nil, t
}

// fieldArr returns heap array name and field type for field name of (pointer to) struct / ghost owner type t.
func (g *Gen) fieldArr(t types.Type, name string) (arr string, fty types.Type, ok bool) {
	st, base := g.structOf(t)
	tn := g.W.typeName(base)
	if st != nil {
		for i := 0; i < st.NumFields(); i++ {
			if st.Field(i).Name() == name {
				return "F!" + tn + "!" + name, st.Field(i).Type(), true
			}
		}
	}
	if gf, ok := g.W.ghost[tn][name]; ok {
		ty, err := g.W.parseType(gf.Type)
		if err != nil {
			trFail("ghost field %s.%s: %v", tn, name, err)
		}
		return "G!" + tn + "!" + name, ty, true
	}
	// ghost fields declared on an embedded interface (AuthSession embeds Session)
	if it, ok := base.Underlying().(*types.Interface); ok {
		for i := 0; i < it.NumEmbeddeds(); i++ {
			if arr, fty, ok := g.fieldArr(it.EmbeddedType(i), name); ok {
				return arr, fty, true
			}
		}
	}
	return "", nil, false
}

func (g *Gen) selectField(h *Heap, base Val, name string) Val {
	arr, fty, ok := g.fieldArr(base.Ty, name)
	if !ok {
		// promoted field of an embedded struct
		if stt, _ := g.structOf(base.Ty); stt != nil {
			for i := 0; i < stt.NumFields(); i++ {
				fl := stt.Field(i)
				if !fl.Embedded() {
					continue
				}
				et := fl.Type()
				if est, _ := g.structOf(et); est != nil {
					for j := 0; j < est.NumFields(); j++ {
						if est.Field(j).Name() == name {
							return g.selectField(h, g.selectField(h, base, fl.Name()), name)
						}
					}
				}
			}
		}
		trFail("no field %s on %s", name, base.Ty)
	}
	idx := base.T
	if sortOf(base.Ty) == "Iface" {
		idx = "(i-val " + base.T + ")"
	}
	if _, isStruct := fty.Underlying().(*types.Struct); isStruct && strings.HasPrefix(arr, "F!") {
		// nested struct by value: addressed through a derived reference (as FieldAddr does)
		_, bt := g.structOf(base.Ty)
		ref := fmt.Sprintf("(fref %s %d)", idx, g.fieldID(g.W.typeName(bt), name))
		if sn, ok := g.sealed(fty); ok {
			// a struct of another package without exported fields: a value as a whole
			return Val{T: fmt.Sprintf("(select %s %s)", g.arr(h, sn, "Opq"), ref), Ty: fty, Loc: &Loc{Arr: sn, Sort: "Opq", Idx: ref, Ty: fty}}
		}
		return Val{T: ref, Ty: fty}
	}
	s := sortOf(fty)
	term := fmt.Sprintf("(select %s %s)", g.arr(h, arr, s), idx)
	// heap well-formedness at function entry: references stored in the heap are allocated
	if s == "Int" && strings.HasPrefix(arr, "F!") {
		switch fty.Underlying().(type) {
		case *types.Pointer, *types.Map, *types.Chan:
			if _, modified := h.cur[arr]; !modified {
				if _, am := h.cur["alloc"]; !am && !strings.Contains(term, "q!") && !strings.Contains(term, "dummy!") {
					key := "wf:" + term
					if !g.assumed[key] {
						g.assumed[key] = true
						g.assume(fmt.Sprintf("(or (= %s 0) (select %s %s))", term, g.arr(h, "alloc", "Bool"), term))
					}
				}
			}
		}
	}
	// heap well-formedness at function entry for interface-valued fields: the object inside exists
	if s == "Iface" && strings.HasPrefix(arr, "F!") && !strings.Contains(term, "q!") && !strings.Contains(term, "dummy!") {
		if _, modified := h.cur[arr]; !modified {
			if _, am := h.cur["alloc"]; !am {
				key := "wfi:" + term
				if !g.assumed[key] {
					g.assumed[key] = true
					g.assume(fmt.Sprintf("(or (= (i-val %s) 0) (select %s (i-val %s)))", term, g.arr(h, "alloc", "Bool"), term))
				}
			}
		}
	}
	// typing invariant of slice-valued fields (the Go type guarantees it for every heap state)
	if s == "Slice" && strings.HasPrefix(arr, "F!") && !strings.Contains(term, "q!") && !strings.Contains(term, "dummy!") {
		key := "wfs:" + term
		if !g.assumed[key] {
			g.assumed[key] = true
			g.assume(fmt.Sprintf("(wfslice %s)", term))
		}
	}
	return Val{T: term, Ty: fty, Loc: &Loc{Arr: arr, Sort: s, Idx: idx, Ty: fty}}
}

func elemArrName(sort string) string { return "E!" + sortTag(sort) }

func (g *Gen) selectElem(h *Heap, sl Val, idx string) Val {
	et := sl.Ty.Underlying().(*types.Slice).Elem()
	s := sortOf(et)
	an := elemArrName(s)
	ea := g.arr(h, an, "(Array Int "+s+")")
	pos := fmt.Sprintf("(slot (s-off %s) %s)", sl.T, idx)
	return Val{T: fmt.Sprintf("(select (select %s (s-arr %s)) %s)", ea, sl.T, pos), Ty: et,
		Loc: &Loc{Arr: an, Sort: s, Idx: "(s-arr " + sl.T + ")", Pos: pos, Ty: et}}
}

func mapArrNames(mt *types.Map) (has, get, ks, vs string) {
	ks, vs = sortOf(mt.Key()), sortOf(mt.Elem())
	tag := sortTag(ks) + "_" + sortTag(vs)
	return "M!has!" + tag, "M!get!" + tag, ks, vs
}

func (g *Gen) tr(e Expr, env *Env) Val {
	switch x := e.(type) {
	case EInt:
		return Val{T: smtInt(x.V), Ty: tyInt}
	case EBool:
		if x.V {
			return Val{T: "true", Ty: tyBool}
		}
		return Val{T: "false", Ty: tyBool}
	case EStr:
		return Val{T: g.strLit(x.V), Ty: tyStr}
	case ENil:
		return Val{T: "0", Ty: types.Typ[types.UntypedNil], Nil: true}
	case EIdent:
		if v, ok := env.vars[x.Name]; ok {
			if v.Cell {
				return g.loadCell(env.heap, v)
			}
			return v
		}
		if env.lookup != nil {
			if v, ok := env.lookup(x.Name); ok {
				if v.Cell {
					return g.loadCell(env.heap, v)
				}
				return v
			}
		}
		if c, ok := g.W.db.Consts[x.Name]; ok {
			return Val{T: smtInt(c), Ty: tyInt}
		}
		if strings.HasSuffix(x.Name, "0") {
			if v, ok := env.entry[strings.TrimSuffix(x.Name, "0")]; ok {
				return v
			}
		}
		if v, ok := g.globalByName(g.W.tpkg, x.Name); ok {
			return v
		}
		trFail("unknown identifier %s", x.Name)
	case EParen:
		return g.tr(x.X, env)
	case ECall:
		if x.Fn == "head" && len(x.Args) == 1 {
			if env.headHeap == nil {
				trFail("head() is only available in loop clauses evaluated on back edges")
			}
			n := *env
			n.heap = env.headHeap
			if len(env.headVars) > 0 {
				// loop variables (header phis) mean their value at the loop head, not the value on this back edge
				n.vars = map[string]Val{}
				for k, v := range env.vars {
					n.vars[k] = v
				}
				for k, v := range env.headVars {
					n.vars[k] = v
				}
			}
			return g.tr(x.Args[0], &n)
		}
		return g.trCall(x, env)
	case EOld:
		n := *env
		if env.old != nil {
			n.heap = env.old
		}
		if len(env.entry) > 0 {
			n.vars = make(map[string]Val, len(env.vars))
			for k, v := range env.vars {
				n.vars[k] = v
			}
			for k, v := range env.entry {
				n.vars[k] = v
			}
		}
		return g.tr(x.X, &n)
	case ESel:
		// package-qualified global: io.EOF
		if id, ok := x.X.(EIdent); ok {
			if _, isVar := env.vars[id.Name]; !isVar {
				isLocal := false
				if env.lookup != nil {
					_, isLocal = env.lookup(id.Name)
				}
				if !isLocal {
					for _, imp := range g.W.allImports() {
						if imp.Name() == id.Name {
							if v, ok := g.globalByName(imp, x.Field); ok {
								return v
							}
						}
					}
				}
			}
		}
		base := g.tr(x.X, env)
		return g.selectField(env.heap, base, x.Field)
	case EIndex:
		base := g.tr(x.X, env)
		idx := g.tr(x.I, env)
		switch {
		case base.Ty == tyIntArr:
			return Val{T: fmt.Sprintf("(select %s %s)", base.T, idx.T), Ty: tyInt}
		case base.Ty == tyStrArr:
			return Val{T: fmt.Sprintf("(select %s %s)", base.T, idx.T), Ty: tyStr}
		case base.Ty == tyIntSet:
			return Val{T: fmt.Sprintf("(select %s %s)", base.T, idx.T), Ty: tyBool}
		case base.Ty == tyStrSet:
			return Val{T: fmt.Sprintf("(select %s %s)", base.T, idx.T), Ty: tyBool}
		}
		switch u := base.Ty.Underlying().(type) {
		case *types.Basic:
			if u.Info()&types.IsString != 0 {
				return Val{T: fmt.Sprintf("(sat %s %s)", base.T, idx.T), Ty: types.Typ[types.Uint8]}
			}
		case *types.Slice:
			return g.selectElem(env.heap, base, idx.T)
		case *types.Array:
			return Val{T: fmt.Sprintf("(select %s %s)", base.T, idx.T), Ty: u.Elem()}
		case *types.Map:
			_, get, ks, vs := mapArrNames(u)
			ga := g.arr(env.heap, get, "(Array "+ks+" "+vs+")")
			return Val{T: fmt.Sprintf("(select (select %s %s) %s)", ga, base.T, idx.T), Ty: u.Elem()}
		}
		trFail("cannot index %s", base.Ty)
	case ESlice:
		base := g.tr(x.X, env)
		lo := "0"
		if x.Lo != nil {
			lo = g.tr(x.Lo, env).T
		}
		if sortOf(base.Ty) == "Str" {
			hi := "(slen " + base.T + ")"
			if x.Hi != nil {
				hi = g.tr(x.Hi, env).T
			}
			return Val{T: g.substr(base.T, lo, hi), Ty: tyStr}
		}
		if sortOf(base.Ty) == "Slice" {
			hi := "(s-len " + base.T + ")"
			if x.Hi != nil {
				hi = g.tr(x.Hi, env).T
			}
			return Val{T: fmt.Sprintf("(mk-slice (s-arr %[1]s) (+ (s-off %[1]s) %[2]s) (- %[3]s %[2]s) (- (s-cap %[1]s) %[2]s))", base.T, lo, hi), Ty: base.Ty}
		}
		trFail("cannot slice %s", base.Ty)
	case EUn:
		v := g.tr(x.X, env)
		switch x.Op {
		case "!":
			return Val{T: not(v.T), Ty: tyBool}
		case "-":
			return Val{T: "(- " + v.T + ")", Ty: tyInt}
		}
	case ECond:
		c := g.tr(x.C, env)
		a := g.tr(x.A, env)
		b := g.tr(x.B, env)
		a, b = g.unifyNil(a, b)
		return Val{T: fmt.Sprintf("(ite %s %s %s)", c.T, a.T, b.T), Ty: a.Ty}
	case EQuant:
		vt := types.Type(tyInt)
		if x.VarTy != "" {
			var err error
			vt, err = g.W.parseType(x.VarTy)
			if err != nil {
				trFail("%v", err)
			}
		}
		bv := "q!" + x.Var
		n := env.bind(x.Var, Val{T: bv, Ty: vt})
		n.bound = map[string]bool{x.Var: true}
		for k := range env.bound {
			n.bound[k] = true
		}
		body := g.tr(x.Body, n)
		q := "exists"
		if x.Forall {
			q = "forall"
		}
		res := fmt.Sprintf("(%s ((%s %s)) %s)", q, bv, sortOf(vt), body.T)
		if x.Witness != nil {
			// instantiate with the hinted witness where it can be evaluated at this program point
			func() {
				defer func() {
					if r := recover(); r != nil {
						if _, ok := r.(trError); !ok {
							panic(r)
						}
					}
				}()
				w := g.tr(x.Witness, env)
				inst := g.tr(x.Body, env.bind(x.Var, Val{T: w.T, Ty: vt}))
				res = or(inst.T, res)
			}()
		}
		return Val{T: res, Ty: tyBool}
	case EBin:
		return g.trBin(x, env)
	}
	trFail("cannot translate %s", exprString(e))
	return Val{}
}

// loadCell reads the current content of a captured variable.
func (g *Gen) loadCell(h *Heap, v Val) Val {
	pt := v.Ty.Underlying().(*types.Pointer)
	et := pt.Elem()
	if at, ok := et.Underlying().(*types.Array); ok {
		// an array variable: its elements live in the element array of its reference
		es := sortOf(at.Elem())
		return Val{T: fmt.Sprintf("(select %s %s)", g.arr(h, elemArrName(es), "(Array Int "+es+")"), v.T), Ty: et}
	}
	s := sortOf(et)
	name := "C!" + sortTag(s)
	return Val{T: fmt.Sprintf("(select %s %s)", g.arr(h, name, s), v.T), Ty: et,
		Loc: &Loc{Arr: name, Sort: s, Idx: v.T, Ty: et}}
}

func isCellType(t types.Type) bool {
	pt, ok := t.Underlying().(*types.Pointer)
	if !ok {
		return false
	}
	switch pt.Elem().Underlying().(type) {
	case *types.Struct:
		return false
	}
	return true
}

func (w *World) allImports() []*types.Package {
	seen := map[*types.Package]bool{}
	var out []*types.Package
	var visit func(p *types.Package)
	visit = func(p *types.Package) {
		if seen[p] {
			return
		}
		seen[p] = true
		out = append(out, p)
		for _, q := range p.Imports() {
			visit(q)
		}
	}
	visit(w.tpkg)
	return out
}

// globalByName: package-level variables are modelled as constants (checked: never written outside init).
func (g *Gen) globalByName(p *types.Package, name string) (Val, bool) {
	o := p.Scope().Lookup(name)
	if o == nil {
		return Val{}, false
	}
	switch ob := o.(type) {
	case *types.Var:
		return g.globalVal(p, ob), true
	case *types.Const:
		if s := sortOf(ob.Type()); s == "Int" {
			if iv, ok := constInt(ob.Val()); ok {
				return Val{T: smtInt(iv), Ty: ob.Type()}, true
			}
		} else if s == "Str" {
			return Val{T: g.strLit(constString(ob.Val())), Ty: ob.Type()}, true
		}
	}
	return Val{}, false
}

func (g *Gen) globalVal(p *types.Package, v *types.Var) Val {
	name := "GV!" + p.Name() + "." + v.Name()
	s := sortOf(v.Type())
	if !g.declared[name] {
		g.declare(name, s)
		if p == g.W.tpkg && g.W.globalsWritten[v.Name()] {
			g.note("global %s is written outside init; modelled as constant", v.Name())
		}
		// sentinel values: non-nil, pairwise distinct pointers/interfaces
		switch s {
		case "Iface":
			g.assume(fmt.Sprintf("(not (= (i-tag %s) 0))", name))
			g.assume(fmt.Sprintf("(not (= (i-val %s) 0))", name))
			for _, o := range g.sentinels("Iface") {
				g.assume(fmt.Sprintf("(not (= (i-val %s) (i-val %s)))", name, o))
			}
			for _, o := range g.sentinels("Int") {
				g.assume(fmt.Sprintf("(not (= (i-val %s) %s))", name, o))
			}
			g.assumed["sentinel:"+name] = true
		case "Int":
			if _, isPtr := v.Type().Underlying().(*types.Pointer); isPtr {
				g.assume(fmt.Sprintf("(not (= %s 0))", name))
				for _, o := range g.sentinels("Int") {
					g.assume(fmt.Sprintf("(not (= %s %s))", name, o))
				}
				for _, o := range g.sentinels("Iface") {
					g.assume(fmt.Sprintf("(not (= (i-val %s) %s))", o, name))
				}
				g.assumed["sentinel:"+name] = true
				// *SMTPError sentinels as interface values carry the *SMTPError tag
			}
		}
		g.sentinelList = append(g.sentinelList, sentinel{name, s, v.Type()})
	}
	return Val{T: name, Ty: v.Type()}
}

type sentinel struct {
	name, sort string
	ty         types.Type
}

func (g *Gen) sentinels(sort string) []string {
	var out []string
	for _, s := range g.sentinelList {
		if s.sort == sort {
			if sort == "Int" {
				if _, isPtr := s.ty.Underlying().(*types.Pointer); !isPtr {
					continue
				}
			}
			out = append(out, s.name)
		}
	}
	return out
}

func (g *Gen) unifyNil(a, b Val) (Val, Val) {
	if a.Nil && !b.Nil {
		a = g.nilOf(b.Ty)
	} else if b.Nil && !a.Nil {
		b = g.nilOf(a.Ty)
	}
	return a, b
}

// coerceIface: comparing an interface value with a pointer wraps the pointer (Go's implicit conversion).
func (g *Gen) coerceIface(a, b Val) (Val, Val) {
	wrap := func(p Val, it types.Type) Val {
		return Val{T: fmt.Sprintf("(mk-iface %s %s)", g.typeTag(p.Ty), p.T), Ty: it}
	}
	if sortOf(a.Ty) == "Iface" && sortOf(b.Ty) == "Int" {
		if _, ok := b.Ty.Underlying().(*types.Pointer); ok {
			return a, wrap(b, a.Ty)
		}
	}
	if sortOf(b.Ty) == "Iface" && sortOf(a.Ty) == "Int" {
		if _, ok := a.Ty.Underlying().(*types.Pointer); ok {
			return wrap(a, b.Ty), b
		}
	}
	return a, b
}

func (g *Gen) nilOf(t types.Type) Val {
	switch sortOf(t) {
	case "Iface":
		return Val{T: "iface-nil", Ty: t}
	case "Slice":
		return Val{T: "slice-nil", Ty: t}
	}
	return Val{T: "0", Ty: t}
}

func isNumeral(s string) bool {
	if s == "" {
		return false
	}
	for _, c := range s {
		if c < '0' || c > '9' {
			return false
		}
	}
	return true
}

func (g *Gen) trBin(x EBin, env *Env) Val {
	switch x.Op {
	case "&&", "||", "==>", "<==>":
		l := g.tr(x.L, env)
		// lazy: a constant-false antecedent / conjunct makes the other side irrelevant (it may mention
		// names that do not exist at this program point)
		if (x.Op == "==>" && l.T == "false") || (x.Op == "||" && l.T == "true") {
			return Val{T: "true", Ty: tyBool}
		}
		if x.Op == "&&" && l.T == "false" {
			return Val{T: "false", Ty: tyBool}
		}
		r := g.tr(x.R, env)
		if sortOf(l.Ty) != "Bool" || sortOf(r.Ty) != "Bool" {
			trFail("boolean operator %s on non-boolean operands in %s", x.Op, exprString(x))
		}
		switch x.Op {
		case "&&":
			return Val{T: and(l.T, r.T), Ty: tyBool}
		case "||":
			return Val{T: or(l.T, r.T), Ty: tyBool}
		case "==>":
			return Val{T: fmt.Sprintf("(=> %s %s)", l.T, r.T), Ty: tyBool}
		default:
			return Val{T: fmt.Sprintf("(= %s %s)", l.T, r.T), Ty: tyBool}
		}
	}
	l := g.tr(x.L, env)
	r := g.tr(x.R, env)
	switch x.Op {
	case "==", "!=":
		l, r = g.unifyNil(l, r)
		l, r = g.coerceIface(l, r)
		var t string
		ls, rs := sortOf(l.Ty), sortOf(r.Ty)
		if ls != rs {
			trFail("comparing %s with %s in %s", l.Ty, r.Ty, exprString(x))
		}
		if ls == "Slice" && (l.T == "slice-nil" || r.T == "slice-nil") {
			o := l
			if l.T == "slice-nil" {
				o = r
			}
			t = fmt.Sprintf("(= (s-arr %s) 0)", o.T)
		} else if at, ok := l.Ty.Underlying().(*types.Array); ok && at.Len() <= 16 {
			var cs []string
			for k := int64(0); k < at.Len(); k++ {
				cs = append(cs, fmt.Sprintf("(= (select %s %d) (select %s %d))", l.T, k, r.T, k))
			}
			t = and(cs...)
		} else if isNumeral(l.T) && isNumeral(r.T) {
			if l.T == r.T {
				t = "true"
			} else {
				t = "false"
			}
		} else {
			t = fmt.Sprintf("(= %s %s)", l.T, r.T)
		}
		if x.Op == "!=" {
			t = not(t)
		}
		return Val{T: t, Ty: tyBool}
	case "<", "<=", ">", ">=":
		return Val{T: fmt.Sprintf("(%s %s %s)", x.Op, l.T, r.T), Ty: tyBool}
	case "+":
		if sortOf(l.Ty) == "Str" {
			return Val{T: g.sconcat(l.T, r.T), Ty: tyStr}
		}
		return Val{T: fmt.Sprintf("(+ %s %s)", l.T, r.T), Ty: tyInt}
	case "-", "*":
		return Val{T: fmt.Sprintf("(%s %s %s)", x.Op, l.T, r.T), Ty: tyInt}
	case "/":
		return Val{T: fmt.Sprintf("(div %s %s)", l.T, r.T), Ty: tyInt}
	case "%":
		return Val{T: fmt.Sprintf("(mod %s %s)", l.T, r.T), Ty: tyInt}
	}
	trFail("unknown operator %s", x.Op)
	return Val{}
}

func (g *Gen) runeStrDecl() {
	g.declareFun("runeStr", []string{"Int"}, "Str")
	g.axiomOnce("runeStr", "(forall ((r Int)) (! (=> (and (<= 0 r) (< r 128)) (and (= (slen (runeStr r)) 1) (= (sat (runeStr r) 0) r))) :pattern ((runeStr r))))")
	g.axiomOnce("runeStr2", "(forall ((r Int)) (! (and (<= 1 (slen (runeStr r))) (<= (slen (runeStr r)) 4)) :pattern ((runeStr r))))")
	g.axiomOnce("runeStr3", "(forall ((r Int) (i Int)) (! (=> (and (>= r 128) (<= 0 i) (< i (slen (runeStr r)))) (>= (sat (runeStr r) i) 128)) :pattern ((sat (runeStr r) i))))")
	g.classClosure()
}

func (g *Gen) fmtIntDecl() {
	g.declareFun("fmtInt", []string{"Int"}, "Str")
	g.axiomOnce("fmtInt", "(forall ((x Int)) (! (>= (slen (fmtInt x)) 1) :pattern ((fmtInt x))))")
	g.classClosure()
}

// string helper functions with triggered axioms (declared on first use)
func (g *Gen) substr(s, lo, hi string) string {
	if !g.declared["substr"] {
		g.declareFun("substr", []string{"Str", "Int", "Int"}, "Str")
		g.assume("(forall ((s Str) (i Int) (j Int)) (! (=> (and (<= 0 i) (<= i j) (<= j (slen s))) (= (slen (substr s i j)) (- j i))) :pattern ((substr s i j))))")
		g.assume("(forall ((s Str) (i Int) (j Int) (k Int)) (! (=> (and (<= 0 i) (<= i j) (<= j (slen s)) (<= 0 k) (< k (- j i))) (= (sat (substr s i j) k) (sat s (+ i k)))) :pattern ((sat (substr s i j) k))))")
		g.assume("(forall ((s Str)) (! (= (substr s 0 (slen s)) s) :pattern ((substr s 0 (slen s)))))")
		g.classClosure()
	}
	return fmt.Sprintf("(substr %s %s %s)", s, lo, hi)
}

func (g *Gen) sconcat(a, b string) string {
	if !g.declared["sconcat"] {
		g.declareFun("sconcat", []string{"Str", "Str"}, "Str")
		g.assume("(forall ((a Str) (b Str)) (! (= (slen (sconcat a b)) (+ (slen a) (slen b))) :pattern ((sconcat a b))))")
		g.assume("(forall ((a Str) (b Str) (k Int)) (! (= (sat (sconcat a b) k) (ite (< k (slen a)) (sat a k) (sat b (- k (slen a))))) :pattern ((sat (sconcat a b) k))))")
		g.classClosure()
	}
	if a == "str!empty" {
		return b
	}
	if b == "str!empty" {
		return a
	}
	return fmt.Sprintf("(sconcat %s %s)", a, b)
}

func (g *Gen) trCall(x ECall, env *Env) Val {
	arg := func(i int) Val {
		if i >= len(x.Args) {
			trFail("%s: missing argument %d", x.Fn, i)
		}
		return g.tr(x.Args[i], env)
	}
	switch x.Fn {
	case "len":
		v := arg(0)
		switch sortOf(v.Ty) {
		case "Str":
			return Val{T: "(slen " + v.T + ")", Ty: tyInt}
		case "Slice":
			return Val{T: "(s-len " + v.T + ")", Ty: tyInt}
		case "Int":
			if _, ok := v.Ty.Underlying().(*types.Chan); ok {
				return Val{T: fmt.Sprintf("(select %s %s)", g.arr(env.heap, "G!chan!len", "Int"), v.T), Ty: tyInt}
			}
			if _, ok := v.Ty.Underlying().(*types.Map); ok {
				return Val{T: fmt.Sprintf("(select %s %s)", g.arr(env.heap, "G!map!len", "Int"), v.T), Ty: tyInt}
			}
		}
		if a, ok := v.Ty.Underlying().(*types.Array); ok {
			return Val{T: fmt.Sprint(a.Len()), Ty: tyInt}
		}
		trFail("len of %s", v.Ty)
	case "cap":
		v := arg(0)
		if sortOf(v.Ty) == "Slice" {
			return Val{T: "(s-cap " + v.T + ")", Ty: tyInt}
		}
		if _, ok := v.Ty.Underlying().(*types.Chan); ok {
			return Val{T: fmt.Sprintf("(select %s %s)", g.arr(env.heap, "G!chan!cap", "Int"), v.T), Ty: tyInt}
		}
		trFail("cap of %s", v.Ty)
	case "chclosed":
		v := arg(0)
		return Val{T: fmt.Sprintf("(select %s %s)", g.arr(env.heap, "G!chan!closed", "Bool"), v.T), Ty: tyBool}
	case "arrOf":
		return Val{T: "(s-arr " + arg(0).T + ")", Ty: tyInt}
	case "elemsOf":
		v := arg(0)
		sl, ok := v.Ty.Underlying().(*types.Slice)
		if ok && sortOf(sl.Elem()) == "Str" {
			return Val{T: fmt.Sprintf("(select %s (s-arr %s))", g.arr(env.heap, elemArrName("Str"), "(Array Int Str)"), v.T), Ty: tyStrArr}
		}
		if !ok || sortOf(sl.Elem()) != "Int" {
			trFail("elemsOf needs a slice of integers or strings")
		}
		return Val{T: fmt.Sprintf("(select %s (s-arr %s))", g.arr(env.heap, elemArrName("Int"), "(Array Int Int)"), v.T), Ty: tyIntArr}
	case "offOf":
		return Val{T: "(s-off " + arg(0).T + ")", Ty: tyInt}
	case "sameSlice":
		a, b := arg(0), arg(1)
		return Val{T: fmt.Sprintf("(= %s %s)", a.T, b.T), Ty: tyBool}
	case "istype":
		v := arg(0)
		ts, ok := x.Args[1].(EStr)
		if !ok {
			trFail("istype needs a string type name")
		}
		t, err := g.W.parseType(ts.V)
		if err != nil {
			trFail("%v", err)
		}
		if _, isIface := t.Underlying().(*types.Interface); isIface {
			return Val{T: fmt.Sprintf("(implements (i-tag %s) %s)", v.T, g.ifaceID(t)), Ty: tyBool}
		}
		return Val{T: fmt.Sprintf("(= (i-tag %s) %s)", v.T, g.typeTag(t)), Ty: tyBool}
	case "asref":
		v := arg(0)
		if len(x.Args) > 1 {
			ts, ok := x.Args[1].(EStr)
			if !ok {
				trFail("asref needs a string type name")
			}
			t, err := g.W.parseType(ts.V)
			if err != nil {
				trFail("%v", err)
			}
			return Val{T: "(i-val " + v.T + ")", Ty: t}
		}
		return Val{T: "(i-val " + v.T + ")", Ty: tyRef}
	case "tagof":
		return Val{T: "(i-tag " + arg(0).T + ")", Ty: tyInt}
	case "mkiface":
		ts, ok := x.Args[0].(EStr)
		if !ok {
			trFail("mkiface needs a string type name")
		}
		t, err := g.W.parseType(ts.V)
		if err != nil {
			trFail("%v", err)
		}
		ity := types.Type(tyAny)
		if len(x.Args) > 2 {
			it, ok := x.Args[2].(EStr)
			if !ok {
				trFail("mkiface: third argument must be an interface type name")
			}
			ity, err = g.W.parseType(it.V)
			if err != nil {
				trFail("%v", err)
			}
		}
		return Val{T: fmt.Sprintf("(mk-iface %s %s)", g.typeTag(t), arg(1).T), Ty: ity}
	case "has":
		m, k := arg(0), arg(1)
		mt, ok := m.Ty.Underlying().(*types.Map)
		if !ok {
			trFail("has on non-map %s", m.Ty)
		}
		has, _, ks, _ := mapArrNames(mt)
		return Val{T: fmt.Sprintf("(and (not (= %[2]s 0)) (select (select %[1]s %[2]s) %[3]s))", g.arr(env.heap, has, "(Array "+ks+" Bool)"), m.T, k.T), Ty: tyBool}
	case "alloc":
		return Val{T: fmt.Sprintf("(select %s %s)", g.arr(env.heap, "alloc", "Bool"), arg(0).T), Ty: tyBool}
	case "contains":
		// contains(s, "literal"): the literal occurs in s. Only what follows from how s was put
		// together is known: a literal piece that contains it, and closure under concatenation.
		sv := arg(0)
		lit, ok := x.Args[1].(EStr)
		if !ok {
			trFail("contains needs a string literal as second argument")
		}
		ln := g.strLit(lit.V)
		if !g.declared["str-contains"] {
			g.declareFun("str-contains", []string{"Str", "Str"}, "Bool")
			g.sconcat("str!empty", "str!empty") // make sure sconcat is declared
			if !g.declared["sconcat"] {
				g.declareFun("sconcat", []string{"Str", "Str"}, "Str")
			}
			g.assume("(forall ((a Str) (b Str) (l Str)) (! (=> (or (str-contains a l) (str-contains b l)) (str-contains (sconcat a b) l)) :pattern ((str-contains (sconcat a b) l))))")
		}
		for o, on := range g.strLits {
			k := "contains:" + on + ":" + ln
			if strings.Contains(o, lit.V) && !g.assumed[k] {
				g.assumed[k] = true
				g.assume(fmt.Sprintf("(str-contains %s %s)", on, ln))
			}
		}
		return Val{T: fmt.Sprintf("(str-contains %s %s)", sv.T, ln), Ty: tyBool}
	case "zeroof":
		// the zero value of a type
		ts, ok := x.Args[0].(EStr)
		if !ok {
			trFail("zeroof needs a string type name")
		}
		t, err := g.W.parseType(ts.V)
		if err != nil {
			trFail("%v", err)
		}
		return Val{T: g.zeroOf(t), Ty: t}
	case "wasalloc":
		h := env.old
		if h == nil {
			h = env.heap
		}
		v := arg(0)
		ref := v.T
		if sortOf(v.Ty) == "Iface" {
			ref = "(i-val " + v.T + ")"
		} else if sortOf(v.Ty) == "Slice" {
			ref = "(s-arr " + v.T + ")"
		}
		return Val{T: fmt.Sprintf("(select %s %s)", g.arr(h, "alloc", "Bool"), ref), Ty: tyBool}
	case "deref":
		// content of a pointer-valued cell (pointer to a local variable holding a reference)
		v := arg(0)
		if pt, ok := v.Ty.Underlying().(*types.Pointer); ok {
			if _, isStruct := pt.Elem().Underlying().(*types.Struct); !isStruct {
				s := sortOf(pt.Elem())
				name := "C!" + sortTag(s)
				return Val{T: fmt.Sprintf("(select %s %s)", g.arr(env.heap, name, s), v.T), Ty: pt.Elem(),
					Loc: &Loc{Arr: name, Sort: s, Idx: v.T, Ty: pt.Elem()}}
			}
		}
		return Val{T: fmt.Sprintf("(select %s %s)", g.arr(env.heap, "C!Int", "Int"), v.T), Ty: tyRef,
			Loc: &Loc{Arr: "C!Int", Sort: "Int", Idx: v.T, Ty: tyRef}}
	case "fmtline":
		// the line fmt would produce for (format, args): expanded Go-side when the format is a constant and
		// the varargs are built at the call site; otherwise an uninterpreted function of both
		fv, av := arg(0), arg(1)
		if fc, ok := fv.SSA.(*ssa.Const); ok && fc.Value != nil && env.frame != nil {
			if args, ok := varargValues(av.SSA); ok {
				if term, ok := env.frame.fmtExpand(constant.StringVal(fc.Value), args, nil); ok {
					return Val{T: term, Ty: tyStr}
				}
			}
			trFail("fmtline: constant format %q cannot be expanded", constant.StringVal(fc.Value))
		}
		if c, ok := av.SSA.(*ssa.Const); ok && c.Value == nil {
			return fv // no arguments: the line is the format itself (callers pass a complete line)
		}
		g.declareFun("fmtline!u", []string{"Str", "Slice"}, "Str")
		return Val{T: fmt.Sprintf("(fmtline!u %s %s)", fv.T, av.T), Ty: tyStr}
	case "runestr":
		v := arg(0)
		g.runeStrDecl()
		return Val{T: "(runeStr " + v.T + ")", Ty: tyStr}
	case "fmtint":
		v := arg(0)
		g.fmtIntDecl()
		return Val{T: "(fmtInt " + v.T + ")", Ty: tyStr}
	case "called":
		// called("callee"[, k]): the callee has been called at least k (default 1) times in this function before
		// this point - a constant, so that `called(...) ==> ... resultof(...) ...` is only translated where it makes sense
		ks, ok := x.Args[0].(EStr)
		if !ok {
			trFail("called(\"callee\"[, k])")
		}
		k := int64(1)
		if len(x.Args) > 1 {
			if kn, ok := x.Args[1].(EInt); ok {
				k = kn.V
			}
		}
		if int64(len(env.callResults[ks.V])) >= k {
			return Val{T: "true", Ty: tyBool}
		}
		return Val{T: "false", Ty: tyBool}
	case "recovered":
		// recovered(): this execution is the panicking one (the value recover() returns is non-nil)
		return Val{T: "recovered!", Ty: tyBool}
	case "resultof":
		// resultof("callee", k, j): j-th result of the k-th call of callee in this function (1-based)
		ks, ok := x.Args[0].(EStr)
		kn, ok2 := x.Args[1].(EInt)
		jn, ok3 := x.Args[2].(EInt)
		if !ok || !ok2 || !ok3 {
			trFail("resultof(\"callee\", k, j)")
		}
		rs := env.callResults[ks.V]
		if int(kn.V) < 1 || int(kn.V) > len(rs) {
			trFail("resultof: %s has %d calls before this point", ks.V, len(rs))
		}
		r := rs[kn.V-1]
		if len(r.Tup) > 0 {
			if int(jn.V) < 1 || int(jn.V) > len(r.Tup) {
				trFail("resultof: bad result index")
			}
			return r.Tup[jn.V-1]
		}
		return r
	case "adv", "advOnly":
		ks, ok := x.Args[1].(EStr)
		if !ok {
			trFail("%s needs a string key", x.Fn)
		}
		return g.trAdv(x.Fn, arg(0), ks.V, env)
	case "min":
		a, b := arg(0), arg(1)
		return Val{T: fmt.Sprintf("(ite (<= %s %s) %s %s)", a.T, b.T, a.T, b.T), Ty: tyInt}
	case "max":
		a, b := arg(0), arg(1)
		return Val{T: fmt.Sprintf("(ite (>= %s %s) %s %s)", a.T, b.T, a.T, b.T), Ty: tyInt}
	case "store":
		a, i, v := arg(0), arg(1), arg(2)
		return Val{T: fmt.Sprintf("(store %s %s %s)", a.T, i.T, v.T), Ty: a.Ty}
	case "itpos":
		if v, ok := env.vars["$itpos"]; ok {
			return Val{T: fmt.Sprintf("(select %s %s)", g.arr(env.heap, "G!iter!pos", "Int"), v.T), Ty: tyInt}
		}
		trFail("itpos used outside a range loop")
	case "itvisited":
		if v, ok := env.vars["$itpos"]; ok {
			k := arg(0)
			ks := sortOf(k.Ty)
			return Val{T: fmt.Sprintf("(select (select %s %s) %s)", g.arr(env.heap, "G!iter!visited!"+sortTag(ks), "(Array "+ks+" Bool)"), v.T, k.T), Ty: tyBool}
		}
		trFail("itvisited used outside a range loop")
	}
	if sc, ok := g.W.db.Classes[x.Fn]; ok {
		v := arg(0)
		if sortOf(v.Ty) != "Str" {
			trFail("%s applied to %s", x.Fn, v.Ty)
		}
		return Val{T: fmt.Sprintf("(%s %s)", g.declareClass(sc), v.T), Ty: tyBool}
	}
	sf, ok := g.W.db.Funcs[x.Fn]
	if !ok {
		trFail("unknown function %s", x.Fn)
	}
	if len(sf.Params) != len(x.Args) {
		trFail("%s: expected %d arguments, got %d", x.Fn, len(sf.Params), len(x.Args))
	}
	args := make([]Val, len(x.Args))
	for i := range x.Args {
		args[i] = g.tr(x.Args[i], env)
		pt, err := g.W.parseType(sf.Params[i].Type)
		if err != nil {
			trFail("%s: %v", x.Fn, err)
		}
		if args[i].Nil {
			args[i] = g.nilOf(pt)
		}
		if sortOf(pt) != sortOf(args[i].Ty) {
			trFail("%s: argument %d has sort %s (%s), expected %s", x.Fn, i, sortOf(args[i].Ty), args[i].Ty, sf.Params[i].Type)
		}
		// keep the more precise Go type of the parameter declaration (needed for field access on refs)
		args[i].Ty = pt
	}
	rt, err := g.W.parseType(sf.Ret)
	if err != nil {
		trFail("%s: %v", x.Fn, err)
	}
	if sf.Body != nil && !sf.Rec {
		// macro expansion in the current heap
		if env.depth > 40 {
			trFail("spec function expansion too deep at %s", x.Fn)
		}
		n := &Env{g: g, vars: map[string]Val{}, heap: env.heap, old: env.old, bound: env.bound, noUnfold: env.noUnfold, depth: env.depth + 1}
		for i, p := range sf.Params {
			n.vars[p.Name] = args[i]
		}
		for k, v := range env.vars {
			if strings.HasPrefix(k, "$") {
				n.vars[k] = v
			}
		}
		v := g.tr(sf.Body, n)
		if v.Nil {
			v = g.nilOf(rt)
		}
		v.Ty = rt
		return v
	}
	// uninterpreted / recursive: SMT function
	if !g.declared["sf!"+sf.Name] {
		var as []string
		for _, p := range sf.Params {
			as = append(as, sortOf(g.W.mustType(p.Type)))
		}
		g.declareFun("sf!"+sf.Name, as, sortOf(rt))
	}
	var ts []string
	for _, a := range args {
		ts = append(ts, a.T)
	}
	app := "(sf!" + sf.Name + " " + strings.Join(ts, " ") + ")"
	if len(ts) == 0 {
		app = "sf!" + sf.Name
	}
	if sf.Rec && !env.noUnfold && !mentionsBound(ts) {
		if !g.recSeen[app] {
			g.recSeen[app] = true
			n := &Env{g: g, vars: map[string]Val{}, heap: &Heap{cur: map[string]string{}}, noUnfold: true, depth: env.depth + 1}
			for i, p := range sf.Params {
				n.vars[p.Name] = args[i]
			}
			body := g.tr(sf.Body, n)
			g.emit(fmt.Sprintf("(assert (= %s %s))", app, body.T))
			for _, a := range sf.Also {
				av := g.tr(a, n)
				g.emit(fmt.Sprintf("(assert %s)", av.T))
			}
		}
	}
	if sf.Rec && sf.Quant && !env.noUnfold && mentionsBound(ts) && !g.recSeen["forall:"+sf.Name] {
		// an application under a quantifier: the definition (and its companion facts) as a triggered axiom
		g.recSeen["forall:"+sf.Name] = true
		n := &Env{g: g, vars: map[string]Val{}, heap: &Heap{cur: map[string]string{}}, noUnfold: true, depth: env.depth + 1}
		var binds, names []string
		for _, p := range sf.Params {
			v := "qd!" + p.Name
			pt := g.W.mustType(p.Type)
			binds = append(binds, "("+v+" "+sortOf(pt)+")")
			names = append(names, v)
			n.vars[p.Name] = Val{T: v, Ty: pt}
		}
		qapp := "(sf!" + sf.Name + " " + strings.Join(names, " ") + ")"
		body := g.tr(sf.Body, n)
		g.emit(fmt.Sprintf("(assert (forall (%s) (! (= %s %s) :pattern (%s))))", strings.Join(binds, " "), qapp, body.T, qapp))
		for _, a := range sf.Also {
			av := g.tr(a, n)
			g.emit(fmt.Sprintf("(assert (forall (%s) (! %s :pattern (%s))))", strings.Join(binds, " "), av.T, qapp))
		}
	}
	return Val{T: app, Ty: rt}
}

func mentionsBound(ts []string) bool {
	for _, t := range ts {
		if strings.Contains(t, "q!") {
			return true
		}
	}
	return false
}
