package main

// Go-side expansion of fmt.Sprintf / fmt.Fprintf with a constant format string (DESIGN.md 2.5):
// the result is the concatenation of the literal pieces and the arguments, for the verbs %s %v %d.

import (
	"fmt"
	"go/constant"
	"go/types"

	"golang.org/x/tools/go/ssa"
)

// varargValues returns the SSA values stored into a varargs slice built at the call site.
func varargValues(v ssa.Value) ([]ssa.Value, bool) {
	if c, ok := v.(*ssa.Const); ok && c.Value == nil {
		return nil, true // no arguments
	}
	sl, ok := v.(*ssa.Slice)
	if !ok {
		return nil, false
	}
	al, ok := sl.X.(*ssa.Alloc)
	if !ok {
		return nil, false
	}
	at, ok := al.Type().Underlying().(*types.Pointer).Elem().Underlying().(*types.Array)
	if !ok {
		return nil, false
	}
	out := make([]ssa.Value, at.Len())
	for _, ref := range *al.Referrers() {
		ia, ok := ref.(*ssa.IndexAddr)
		if !ok {
			continue
		}
		ic, ok := ia.Index.(*ssa.Const)
		if !ok {
			return nil, false
		}
		k, _ := constant.Int64Val(ic.Value)
		for _, r2 := range *ia.Referrers() {
			if st, ok := r2.(*ssa.Store); ok && st.Addr == ia {
				if k < 0 || k >= int64(len(out)) || out[k] != nil {
					return nil, false
				}
				out[k] = st.Val
			}
		}
	}
	for _, o := range out {
		if o == nil {
			return nil, false
		}
	}
	return out, true
}

// fmtExpand builds the SMT string term for a constant format applied to the given arguments.
func (f *frame) fmtExpand(format string, args []ssa.Value, st *State) (string, bool) {
	g := f.g
	res := "str!empty"
	lit := ""
	flush := func() {
		if lit != "" {
			res = g.sconcat(res, g.strLit(lit))
			lit = ""
		}
	}
	ai := 0
	for i := 0; i < len(format); i++ {
		ch := format[i]
		if ch != '%' {
			lit += string(ch)
			continue
		}
		if i+1 >= len(format) {
			return "", false
		}
		i++
		verb := format[i]
		if verb == '%' {
			lit += "%"
			continue
		}
		if verb != 's' && verb != 'v' && verb != 'd' {
			return "", false
		}
		if ai >= len(args) {
			return "", false
		}
		a := args[ai]
		ai++
		if mi, ok := a.(*ssa.MakeInterface); ok {
			a = mi.X
		}
		v := f.val(a)
		flush()
		switch sortOf(v.Ty) {
		case "Str":
			res = g.sconcat(res, v.T)
		case "Int":
			if _, _, isInt := intRange(v.Ty); !isInt {
				return "", false
			}
			g.fmtIntDecl()
			res = g.sconcat(res, "(fmtInt "+v.T+")")
		case "Slice":
			// %s of a []byte: the string with the same octets (in the current heap)
			sl, isSl := v.Ty.Underlying().(*types.Slice)
			n := g.fresh("fmtbytes")
			g.declare(n, "Str")
			if isSl && sortOf(sl.Elem()) == "Int" && st != nil {
				ea := g.arr(st.heap, elemArrName("Int"), "(Array Int Int)")
				g.assumeUnder(st.reach, fmt.Sprintf("(= (slen %s) (s-len %s))", n, v.T))
				g.assumeUnder(st.reach, fmt.Sprintf("(forall ((k Int)) (! (=> (and (<= 0 k) (< k (s-len %[2]s))) (= (sat %[1]s k) (select (select %[3]s (s-arr %[2]s)) (slot (s-off %[2]s) k)))) :pattern ((sat %[1]s k))))", n, v.T, ea))
			}
			res = g.sconcat(res, n)
		default:
			// error values, Stringers, ...: an unknown string
			n := g.fresh("fmtarg")
			g.declare(n, "Str")
			res = g.sconcat(res, n)
		}
	}
	flush()
	if ai != len(args) {
		return "", false
	}
	return res, true
}

// tryFmtCall handles fmt.Sprintf and fmt.Fprintf(*strings.Builder, ...) with constant formats.
func (f *frame) tryFmtCall(c *ssa.CallCommon, key string, st *State) (Val, bool) {
	g := f.g
	switch key {
	case "fmt.Sprintf":
		fc, ok := c.Args[0].(*ssa.Const)
		if !ok || fc.Value == nil {
			return Val{}, false
		}
		args, ok := varargValues(c.Args[1])
		if !ok {
			return Val{}, false
		}
		t, ok := f.fmtExpand(constant.StringVal(fc.Value), args, st)
		if !ok {
			return Val{}, false
		}
		n := g.fresh("sprintf")
		g.define(n, "Str", t)
		return Val{T: n, Ty: tyStr}, true
	case "fmt.Fprintf":
		if len(c.Args) < 3 {
			return Val{}, false
		}
		mi, ok := c.Args[0].(*ssa.MakeInterface)
		if !ok {
			return Val{}, false
		}
		pt, ok := mi.X.Type().Underlying().(*types.Pointer)
		if !ok || g.W.typeName(pt.Elem()) != "strings.Builder" {
			return Val{}, false
		}
		fc, ok := c.Args[1].(*ssa.Const)
		if !ok || fc.Value == nil {
			return Val{}, false
		}
		args, ok := varargValues(c.Args[2])
		if !ok {
			return Val{}, false
		}
		t, ok := f.fmtExpand(constant.StringVal(fc.Value), args, st)
		if !ok {
			return Val{}, false
		}
		b := f.val(mi.X)
		ref := b.T
		if b.Loc != nil && b.Loc.Struct {
			ref = b.Loc.Idx
		}
		name := "G!strings.Builder!content"
		if _, ok := g.W.ghost["strings.Builder"]["content"]; !ok {
			return Val{}, false
		}
		a := g.arr(st.heap, name, "Str")
		g.noteWrite(name, ref)
		g.assignArr(st.heap, name, "Str", fmt.Sprintf("(store %s %s %s)", a, ref, g.sconcat(fmt.Sprintf("(select %s %s)", a, ref), t)))
		res := g.havocVal(g.fresh("fprintf"), c.Signature().Results(), st.reach)
		return res, true
	}
	return Val{}, false
}
