package main

// Keyword-membership abstraction for []string values built by slice literals and append
// (DESIGN.md 3.C12): for every tracked slice value the generator keeps, per element key, the
// condition under which an element with that key is a member. Keys: "lit:<s>" for a string
// constant, "fmt:<format>" for the result of fmt.Sprintf with a constant format, "pre:<s>" for
// <constant> + x, "var:<name>" for a named local (phi). Anything else makes the slice untracked
// (contracts that ask about it then fail closed).

import (
	"fmt"
	"go/constant"
	"go/token"
	"go/types"
	"sort"
	"strings"

	"golang.org/x/tools/go/ssa"
)

func isStringSlice(t types.Type) bool {
	s, ok := t.Underlying().(*types.Slice)
	if !ok {
		return false
	}
	b, ok := s.Elem().Underlying().(*types.Basic)
	return ok && b.Info()&types.IsString != 0
}

func (f *frame) elemKey(v ssa.Value) (string, bool) {
	switch x := v.(type) {
	case *ssa.Const:
		if x.Value != nil && x.Value.Kind() == constant.String {
			return "lit:" + constant.StringVal(x.Value), true
		}
	case *ssa.Call:
		if sf := x.Call.StaticCallee(); sf != nil && sf.String() == "fmt.Sprintf" && len(x.Call.Args) > 0 {
			if c, ok := x.Call.Args[0].(*ssa.Const); ok && c.Value != nil {
				return "fmt:" + constant.StringVal(c.Value), true
			}
		}
	case *ssa.BinOp:
		if x.Op == token.ADD {
			if c, ok := x.X.(*ssa.Const); ok && c.Value != nil && c.Value.Kind() == constant.String {
				return "pre:" + constant.StringVal(c.Value), true
			}
		}
	case *ssa.Phi:
		if x.Comment != "" {
			return "var:" + x.Comment, true
		}
	}
	return "", false
}

// ssetSliceLit: slice of a freshly allocated [N]string whose elements are stored once each.
func (f *frame) ssetSliceLit(x *ssa.Slice, res Val) {
	if !isStringSlice(x.Type()) || x.Low != nil || x.High != nil {
		return
	}
	al, ok := x.X.(*ssa.Alloc)
	if !ok {
		return
	}
	at, ok := al.Type().Underlying().(*types.Pointer).Elem().Underlying().(*types.Array)
	if !ok {
		return
	}
	set := map[string]string{}
	vals := map[string][]string{}
	n := 0
	for _, ref := range *al.Referrers() {
		ia, ok := ref.(*ssa.IndexAddr)
		if !ok {
			continue
		}
		for _, r2 := range *ia.Referrers() {
			st, ok := r2.(*ssa.Store)
			if !ok || st.Addr != ia {
				continue
			}
			k, ok := f.elemKey(st.Val)
			if !ok {
				return
			}
			set[k] = "true"
			vals[k] = append(vals[k], f.val(st.Val).T)
			n++
		}
	}
	if int64(n) != at.Len() {
		return
	}
	if f.sset == nil {
		f.sset = map[string]map[string]string{}
	}
	f.sset[res.T] = set
	f.setSsetVals(res.T, vals)
}

func (f *frame) setSsetVals(t string, vals map[string][]string) {
	if f.ssetVals == nil {
		f.ssetVals = map[string]map[string][]string{}
	}
	f.ssetVals[t] = vals
}

func mergeVals(dst map[string][]string, src map[string][]string) {
	for k, vs := range src {
		for _, v := range vs {
			dup := false
			for _, o := range dst[k] {
				if o == v {
					dup = true
				}
			}
			if !dup {
				dst[k] = append(dst[k], v)
			}
		}
	}
}

// ssetElementsFact: what the abstraction knows about the elements of a tracked slice, as a formula:
// every element is one of the values recorded under a key whose membership condition holds. Sound
// because tracked slices are built from literals, append and phis only (no element is overwritten:
// a function that stores into a []string element after construction is not tracked, see untrackIfWritten).
func (f *frame) ssetElementsFact(sl Val, h *Heap) (string, bool) {
	set, ok := f.sset[sl.T]
	vals, ok2 := f.ssetVals[sl.T]
	if !ok || !ok2 || f.stringSliceWritten() {
		return "", false
	}
	g := f.g
	ea := g.arr(h, elemArrName("Str"), "(Array Int Str)")
	elem := fmt.Sprintf("(select (select %s (s-arr %s)) (slot (s-off %s) q!e))", ea, sl.T, sl.T)
	var ks []string
	for k := range set {
		ks = append(ks, k)
	}
	sort.Strings(ks)
	var alts []string
	for _, k := range ks {
		if len(vals[k]) == 0 {
			return "", false
		}
		for _, v := range vals[k] {
			alts = append(alts, fmt.Sprintf("(and %s (= %s %s))", set[k], elem, v))
		}
	}
	if len(alts) == 0 {
		return fmt.Sprintf("(= (s-len %s) 0)", sl.T), true
	}
	return fmt.Sprintf("(forall ((q!e Int)) (=> (and (<= 0 q!e) (< q!e (s-len %s))) (or %s)))", sl.T, strings.Join(alts, " ")), true
}

// stringSliceWritten: the function stores into an element of a []string through an index on a slice
// (as opposed to initialising the backing array of a literal).
func (f *frame) stringSliceWritten() bool {
	if f.strSliceWritten != nil {
		return *f.strSliceWritten
	}
	w := false
	for _, b := range f.fn.Blocks {
		for _, in := range b.Instrs {
			ia, ok := in.(*ssa.IndexAddr)
			if !ok {
				continue
			}
			if !isStringSlice(ia.X.Type()) {
				continue
			}
			for _, r := range *ia.Referrers() {
				if st, ok := r.(*ssa.Store); ok && st.Addr == ia {
					w = true
				}
			}
		}
	}
	f.strSliceWritten = &w
	return w
}

func (f *frame) ssetAppend(c *ssa.CallCommon, args []Val, res Val) {
	if len(args) != 2 || !isStringSlice(res.Ty) {
		return
	}
	a, okA := f.sset[args[0].T]
	if !okA {
		if isNilConst(c.Args[0]) {
			a, okA = map[string]string{}, true
		}
	}
	b, okB := f.sset[args[1].T]
	if !okA || !okB {
		return
	}
	set := map[string]string{}
	for k, v := range a {
		set[k] = v
	}
	for k, v := range b {
		set[k] = or(set[k], v)
	}
	f.sset[res.T] = set
	vals := map[string][]string{}
	mergeVals(vals, f.ssetVals[args[0].T])
	mergeVals(vals, f.ssetVals[args[1].T])
	f.setSsetVals(res.T, vals)
}

func (f *frame) ssetPhi(phi *ssa.Phi, res Val, conds, vals []string) {
	if !isStringSlice(phi.Type()) || f.sset == nil {
		return
	}
	keys := map[string]bool{}
	for _, t := range vals {
		s, ok := f.sset[t]
		if !ok {
			return
		}
		for k := range s {
			keys[k] = true
		}
	}
	set := map[string]string{}
	for k := range keys {
		var cs []string
		for _, t := range vals {
			c, ok := f.sset[t][k]
			if !ok {
				c = "false"
			}
			cs = append(cs, c)
		}
		set[k] = iteChain(conds, cs)
	}
	f.sset[res.T] = set
	mv := map[string][]string{}
	for _, t := range vals {
		mergeVals(mv, f.ssetVals[t])
	}
	f.setSsetVals(res.T, mv)
}

// trAdv implements the spec builtins adv(slice, "key") and advOnly(slice, "k1|k2|...").
func (g *Gen) trAdv(fn string, sl Val, arg string, env *Env) Val {
	var set map[string]string
	ok := false
	if env.sset != nil {
		set, ok = env.sset[sl.T]
	}
	if !ok {
		trFail("%s: the slice is not tracked by the keyword-membership abstraction", fn)
	}
	norm := func(k string) string {
		if strings.Contains(k, ":") && (strings.HasPrefix(k, "lit:") || strings.HasPrefix(k, "fmt:") || strings.HasPrefix(k, "pre:") || strings.HasPrefix(k, "var:")) {
			return k
		}
		return "lit:" + k
	}
	if fn == "adv" {
		c, ok := set[norm(arg)]
		if !ok {
			c = "false"
		}
		return Val{T: c, Ty: tyBool}
	}
	allowed := map[string]bool{}
	for _, k := range strings.Split(arg, "|") {
		allowed[norm(k)] = true
	}
	var ks []string
	for k := range set {
		ks = append(ks, k)
	}
	sort.Strings(ks)
	var cs []string
	for _, k := range ks {
		if !allowed[k] {
			cs = append(cs, not(set[k]))
		}
	}
	_ = fmt.Sprint
	return Val{T: and(cs...), Ty: tyBool}
}
