package main

// Go back end of the spec language (pure integer/boolean functions), so that the oracle
// used in a proof and the oracle run against the real code in a replay are the same text.

import (
	"fmt"
	"sort"
	"strings"
)

type goGen struct {
	db     *SpecDB
	params map[string]string // name -> go type
	ok     map[string]bool   // functions known to have a Go back end
}

func (gg *goGen) expr(e Expr) (code string, isBool bool, err error) {
	switch x := e.(type) {
	case EInt:
		return fmt.Sprintf("int64(%d)", x.V), false, nil
	case EBool:
		return fmt.Sprint(x.V), true, nil
	case EParen:
		return gg.expr(x.X)
	case EIdent:
		if t, ok := gg.params[x.Name]; ok {
			return "p_" + x.Name, t == "bool", nil
		}
		if c, ok := gg.db.Consts[x.Name]; ok {
			return fmt.Sprintf("int64(%d)", c), false, nil
		}
		return "", false, fmt.Errorf("unknown identifier %s", x.Name)
	case EUn:
		c, b, err := gg.expr(x.X)
		if err != nil {
			return "", false, err
		}
		if x.Op == "!" {
			return "(!" + c + ")", true, nil
		}
		_ = b
		return "(-" + c + ")", false, nil
	case EBin:
		l, _, err := gg.expr(x.L)
		if err != nil {
			return "", false, err
		}
		r, _, err := gg.expr(x.R)
		if err != nil {
			return "", false, err
		}
		switch x.Op {
		case "&&", "||":
			return "(" + l + " " + x.Op + " " + r + ")", true, nil
		case "==>":
			return "(!" + l + " || " + r + ")", true, nil
		case "<==>":
			return "(" + l + " == " + r + ")", true, nil
		case "==", "!=", "<", "<=", ">", ">=":
			return "(" + l + " " + x.Op + " " + r + ")", true, nil
		case "+", "-", "*":
			return "(" + l + " " + x.Op + " " + r + ")", false, nil
		case "/":
			return "specDiv(" + l + ", " + r + ")", false, nil
		case "%":
			return "specMod(" + l + ", " + r + ")", false, nil
		}
	case ECond:
		c, _, err := gg.expr(x.C)
		if err != nil {
			return "", false, err
		}
		a, ab, err := gg.expr(x.A)
		if err != nil {
			return "", false, err
		}
		b, _, err := gg.expr(x.B)
		if err != nil {
			return "", false, err
		}
		if ab {
			return "specIteB(" + c + ", " + a + ", " + b + ")", true, nil
		}
		return "specIte(" + c + ", " + a + ", " + b + ")", false, nil
	case ECall:
		sf, ok := gg.db.Funcs[x.Fn]
		if !ok || sf.Body == nil || sf.Rec || (gg.ok != nil && !gg.ok[x.Fn]) {
			return "", false, fmt.Errorf("function %s has no Go back end", x.Fn)
		}
		var as []string
		for _, a := range x.Args {
			c, _, err := gg.expr(a)
			if err != nil {
				return "", false, err
			}
			as = append(as, c)
		}
		return "spec_" + x.Fn + "(" + strings.Join(as, ", ") + ")", sf.Ret == "bool", nil
	}
	return "", false, fmt.Errorf("no Go back end for %s", exprString(e))
}

// specGoSource renders every pure int/bool spec function as Go.
func specGoSource(db *SpecDB) string {
	var sb strings.Builder
	sb.WriteString(`
func specIte(c bool, a, b int64) int64 { if c { return a }; return b }
func specIteB(c bool, a, b bool) bool { if c { return a }; return b }
func specDiv(a, b int64) int64 { q := a / b; if a%b < 0 { if b > 0 { q-- } else { q++ } }; return q }
func specMod(a, b int64) int64 { m := a % b; if m < 0 { if b > 0 { m += b } else { m -= b } }; return m }
`)
	names := append([]string{}, db.FuncOrder...)
	sort.Strings(names)
	okSet := map[string]bool{}
	for _, n := range names {
		okSet[n] = true
	}
	render := func(sf *SpecFunc) (string, bool) {
		if sf.Body == nil || sf.Rec {
			return "", false
		}
		gg := &goGen{db: db, params: map[string]string{}, ok: okSet}
		var ps []string
		for _, p := range sf.Params {
			switch p.Type {
			case "int", "int64", "byte", "rune":
				gg.params[p.Name] = "int64"
			case "bool":
				gg.params[p.Name] = "bool"
			default:
				return "", false
			}
			ps = append(ps, "p_"+p.Name+" "+gg.params[p.Name])
		}
		body, isBool, err := gg.expr(sf.Body)
		if err != nil {
			return "", false
		}
		rt := "int64"
		if sf.Ret == "bool" || isBool {
			rt = "bool"
		}
		return fmt.Sprintf("func spec_%s(%s) %s { return %s }\n", sf.Name, strings.Join(ps, ", "), rt, body), true
	}
	for changed := true; changed; {
		changed = false
		for _, n := range names {
			if okSet[n] {
				if _, ok := render(db.Funcs[n]); !ok {
					okSet[n] = false
					changed = true
				}
			}
		}
	}
	for _, n := range names {
		if okSet[n] {
			src, _ := render(db.Funcs[n])
			sb.WriteString(src)
		}
	}
	return sb.String()
}
