package main

// Self-test of the machinery: must-fail mutants (property-breaking edits of /repo that still
// compile and pass the test suite) and must-pass refactorings, each applied to a scratch copy
// outside /repo and /verif which is deleted afterwards.

import (
	"encoding/json"
	"fmt"
	"os"
	"os/exec"
	"path/filepath"
	"runtime"
	"strings"
	"time"
)

type mutantMeta struct {
	ID     string   `json:"id"`
	Patch  string   `json:"patch"`
	Props  []string `json:"props"`
	Expect string   `json:"expect"` // substring of a failing obligation name ("" = any)
	Kind   string   `json:"kind"`   // "mutant" (must fail) or "refactor" (must pass)
	Note   string   `json:"note"`
}

func selftest(verif, repo string, args []string, verbose bool) int {
	data, err := os.ReadFile(filepath.Join(verif, "selftest", "corpus.json"))
	if err != nil {
		fmt.Println("selftest: no corpus:", err)
		return 1
	}
	var corpus []mutantMeta
	if err := json.Unmarshal(data, &corpus); err != nil {
		fmt.Println("selftest: bad corpus.json:", err)
		return 1
	}
	want := map[string]bool{}
	for _, a := range args {
		want[a] = true
	}
	bad := 0
	total := 0
	for _, m := range corpus {
		if len(want) > 0 && !want[m.ID] {
			matchesProp := false
			for _, p := range m.Props {
				if want[p] {
					matchesProp = true
				}
			}
			if !matchesProp {
				continue
			}
		}
		total++
		ok, detail := runMutant(verif, repo, m, want, verbose)
		status := "ok  "
		if !ok {
			status = "FAIL"
			bad++
		}
		fmt.Printf("%s %-8s %-10s %s  %s\n", status, m.Kind, m.ID, strings.Join(m.Props, ","), detail)
	}
	fmt.Printf("selftest: %d of %d behaved as expected\n", total-bad, total)
	if bad > 0 {
		return 1
	}
	return 0
}

func scratchCopy(repo string) (string, error) {
	dir, err := os.MkdirTemp("", "govc-scratch")
	if err != nil {
		return "", err
	}
	dst := filepath.Join(dir, "repo")
	if out, err := exec.Command("cp", "-r", repo, dst).CombinedOutput(); err != nil {
		os.RemoveAll(dir)
		return "", fmt.Errorf("cp: %v %s", err, out)
	}
	return dst, nil
}

func runMutant(verif, repo string, m mutantMeta, want map[string]bool, verbose bool) (bool, string) {
	dst, err := scratchCopy(repo)
	if err != nil {
		return false, err.Error()
	}
	defer os.RemoveAll(filepath.Dir(dst))
	patch := filepath.Join(verif, "selftest", m.Patch)
	if out, err := exec.Command("git", "-C", dst, "apply", "--whitespace=nowarn", patch).CombinedOutput(); err != nil {
		return false, fmt.Sprintf("patch does not apply: %s", strings.TrimSpace(string(out)))
	}
	w, err := loadWorld(dst, verif)
	if err != nil {
		return false, "load: " + err.Error()
	}
	w.computeSweep()
	kf := loadKnown(verif)
	var failing []string
	nObl := 0
	genErrs := 0
	for _, p := range m.Props {
		run := generate(w, p)
		genErrs += len(run.errs)
		if m.Kind == "refactor" {
			dischargeAll(run.obls, runtime.NumCPU(), 6*time.Second, 12*time.Second, false)
			secondChance(run.obls, 6*time.Second, 12*time.Second)
		} else {
			// for a must-fail mutant an undecided obligation already counts as detection
			dischargeAll(run.obls, runtime.NumCPU(), 4*time.Second, 4*time.Second, false)
		}
		run.obls = append(run.obls, boundedObligations(verif, dst, p)...)
		nObl += len(run.obls)
		for _, o := range run.obls {
			if !o.ok() && kf.open(p, o.Name) == nil {
				failing = append(failing, p+":"+o.Name)
			}
		}
	}
	switch m.Kind {
	case "refactor":
		if len(failing) > 0 || genErrs > 0 {
			return false, fmt.Sprintf("false alarm: %s (generator errors: %d)", strings.Join(firstN(failing, 3), "; "), genErrs)
		}
		return true, fmt.Sprintf("no alarm (%d obligations)", nObl)
	default:
		if len(failing) == 0 && genErrs == 0 {
			return false, fmt.Sprintf("NOT DETECTED (%d obligations all discharged)", nObl)
		}
		if m.Expect != "" {
			hit := false
			for _, f := range failing {
				if strings.Contains(f, m.Expect) {
					hit = true
				}
			}
			if !hit {
				return false, fmt.Sprintf("detected, but not by the expected obligation %q: %s", m.Expect, strings.Join(firstN(failing, 3), "; "))
			}
		}
		if genErrs > 0 && len(failing) == 0 {
			return true, "detected (fail closed: generator error)"
		}
		return true, "detected by " + strings.Join(firstN(failing, 2), "; ")
	}
}

func firstN(s []string, n int) []string {
	if len(s) > n {
		return append(append([]string{}, s[:n]...), fmt.Sprintf("... (%d)", len(s)))
	}
	return s
}

// vacuityCorpus (thorough tier): every seeded change of the corpus that names the property is applied
// to a scratch copy and must make a named obligation of THIS property fail; every behaviour-preserving
// refactoring must leave all of them discharged. The outcome is evidence about the check, not about
// /repo: it never turns into a VIOLATION line.
func vacuityCorpus(verif, repo, prop string) []map[string]string {
	data, err := os.ReadFile(filepath.Join(verif, "selftest", "corpus.json"))
	if err != nil {
		return nil
	}
	var corpus []mutantMeta
	if json.Unmarshal(data, &corpus) != nil {
		return nil
	}
	var out []map[string]string
	// the bounded stand-ins run at the quick bound while seeded changes are replayed
	saved := boundedTier
	boundedTier = "quick"
	defer func() { boundedTier = saved }()
	for _, m := range corpus {
		has := false
		for _, p := range m.Props {
			if p == prop {
				has = true
			}
		}
		if !has {
			continue
		}
		one := m
		one.Props = []string{prop}
		if m.Kind != "refactor" && len(m.Props) > 1 {
			one.Expect = "" // the expected obligation may belong to the other property
		}
		ok, detail := runMutant(verif, repo, one, nil, false)
		st := "as-expected"
		if !ok {
			st = "NOT-as-expected"
		}
		fmt.Printf("CORPUS %s %-8s %-10s %s\n", st, m.Kind, m.ID, detail)
		out = append(out, map[string]string{"id": m.ID, "kind": m.Kind, "outcome": st, "detail": detail, "note": m.Note})
	}
	return out
}
