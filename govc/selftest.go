package main

func selftest(verif, repo string, args []string, verbose bool) int { return 0 }
